"""Checks for the statime (PTP / CSPTP) crates, driven through the stand-alone harness package harness/ext
(public API only): C41 (spec/PtpWire.tla), C45 C44 (spec/Csptp.tla), C42 C43 (spec/Estimator.tla), and - C42 C43 -
through harness/statime_algo/estimator.rs compiled into statime-algo's own test target (crate-private EstimatorState,
spec/EstState.tla)."""
import os, json, zlib, random, time
import vf, sm

CRATE = "verif_ext"


def _case_seed(key, seed):
    return (zlib.crc32(key.encode()) ^ ((seed * 2654435761) & 0xFFFFFFFF)) & 0xFFFFFFFF


def _tlc_cases(module, cfg, tags=("CASE",), timeout=1500):
    """One TLC run: checks the configuration's invariants on the model and returns the printed cases
    (sorted, so that ids and per-case seeds do not depend on TLC's enumeration order)."""
    res = vf.run_tlc(module, cfg, workers=4, timeout=timeout, tags=tags, coverage=False)
    if res.violated:
        raise vf.ToolError("model %s/%s violates %s at design level:\n%s" % (module, cfg, res.violated, res.error_trace[:3000]))
    out = {}
    for t in tags:
        rows = res.lines.get(t, [])
        rows.sort(key=vf.key)
        out[t] = rows
    return res, out


def _finish_mc(out, res):
    out.add("states", res.distinct)
    out.add("transitions", res.generated)
    out.add("traces_validated_against_impl", 0)


# ------------------------------------------------------------------------------------------------
# C41  PTP messages round-trip  (PtpWire.tla)
# ------------------------------------------------------------------------------------------------
_C41_PRIORITY = ["panic", "ser", "size", "parse", "res", "used", "ntlv", "equal", "iter", "reser"]


def _c41_shape(act):
    if act["dir"] == "ser":
        t, dev = act["m"]["tlvs"], []
    else:
        d = act["d"]
        t = d["items"]
        dev = ["%s=%s" % (k, d[k]) for k in ("short", "junk") if d[k]]
        dev += ["ml=" + d["ml"]] if d["ml"] != "exact" else []
        dev += ["cut=" + d["cut"]] if d["cut"] != "none" else []
    tail = "none" if not t else ("empty" if t[-1]["l"] == 0 else "nonempty")
    return ",".join(["tail=" + tail] + dev)


def run_c41(out, tier, seed):
    wd = vf.workdir("PtpWire")
    res, tagged = _tlc_cases("MC_PtpWire", "Gen_PtpWire_%s.cfg" % tier)
    cases = tagged["CASE"]
    if len(cases) < 1000:
        raise vf.ToolError("PtpWire: TLC printed only %d cases" % len(cases))
    _finish_mc(out, res)
    rows = []
    for n, c in enumerate(cases):
        k = vf.key(c["act"])
        rows.append({"id": n, "s": _case_seed(k, seed), "act": c["act"], "out": c["out"], "cone": c["cone"]})
    inp = os.path.join(wd, "cases_C41.ndjson")
    outp = os.path.join(wd, "results_C41.ndjson")
    vf.write_ndjson(inp, rows)
    vf.run_harness(CRATE, "ptpwire::verif_ptpwire", {"mode": "replay", "input": inp, "output": outp, "seed": seed}, which="ext")
    results = vf.read_ndjson(outp)
    summary = results[-1].get("summary")
    if not summary or summary["cases"] != len(rows):
        raise vf.ToolError("PtpWire harness did not process all cases: %s" % summary)
    if summary["accepted"] == 0 or summary["rejected"] == 0:
        raise vf.ToolError("PtpWire replay is vacuous: %s" % summary)
    nser = sum(1 for r in rows if r["act"]["dir"] == "ser")
    out.add("model_cases", len(rows))
    out.add("model_cases_serialise_direction", nser)
    out.add("model_cases_parse_direction", len(rows) - nser)
    out.add("cases_confirmed_on_impl", len(rows) - summary["failing"])
    out.add("impl_accepted", summary["accepted"])
    out.add("impl_rejected", summary["rejected"])
    for r in results[:-1]:
        c = rows[r["id"]]
        fields = set(r["fields"])
        hit = [f for f in _C41_PRIORITY if f in fields and f in c["cone"]]
        detail = {"how": "replay", "case": c["act"], "expected": c["out"], "observed": r["observed"], "panic": r.get("panic"),
                  "differing": sorted(fields), "cone": c["cone"], "case_seed": c["s"]}
        if fields == {"errkind"}:
            out.add("error_kind_differences_outside_cone", 1)
        elif hit:
            out.violation("PtpWire:%s:%s:%s" % (c["act"]["dir"], _c41_shape(c["act"]), hit[0]), detail)
        else:
            out.divergences.append(detail)
            out.notes.append("divergence outside C41's cone: %s %s fields %s" % (c["act"]["dir"], _c41_shape(c["act"]), sorted(fields)))
    out.sample({"case": rows[0]["act"], "expected": rows[0]["out"]})
    out.sample({"case": rows[-1]["act"], "expected": rows[-1]["out"]})

    # byte-level exploration of parse totality: seeded mutations of concretised datagram classes and random strings
    pr = [r for r in rows if r["act"]["dir"] == "parse"]
    rng = random.Random(seed)
    sample = rng.sample(pr, min(len(pr), 600))
    finp = os.path.join(wd, "fuzz_seeds_C41.ndjson")
    foutp = os.path.join(wd, "fuzz_results_C41.ndjson")
    vf.write_ndjson(finp, sample)
    n = 30000 if tier == "quick" else 600000
    vf.run_harness(CRATE, "ptpwire::verif_ptpwire", {"mode": "fuzz", "input": finp, "output": foutp, "seed": seed, "n": n}, which="ext")
    fres = vf.read_ndjson(foutp)
    fs = fres[-1].get("summary")
    if not fs or fs["evaluations"] != n or fs["accepted"] < 10:
        raise vf.ToolError("PtpWire byte-level exploration is vacuous or incomplete: %s" % fs)
    out.add("evaluations", n)
    out.add("distinct_nontrivial", fs["distinct_accepted_shapes"])
    out.add("byte_strings_accepted", fs["accepted"])
    for r in fres[:-1]:
        out.violation("PtpWire:bytes:%s:%s" % (r["kind"], r["msg"][:60]), {"how": "byte-level exploration", **r})


# ------------------------------------------------------------------------------------------------
# C45  CSPTP server answers only requests, with correct echoes  (Csptp.tla, server part)
# ------------------------------------------------------------------------------------------------
_C45_PRIORITY = ["panic", "nsend", "ev_kind", "ev_domain", "ev_seq", "ev_ingress", "ev_reqcorr", "ev_twostep",
                 "fu_kind", "fu_domain", "fu_seq", "fu_origin"]


def _c45_shape(d):
    dev = []
    if d["parse"] != "ok":
        dev.append("parse=" + d["parse"])
    if d["sdo"] != "csptp":
        dev.append("sdo=other")
    if d["major"] != 2:
        dev.append("major=%d" % d["major"])
    if d["pad"]:
        dev.append("padded")
    return "%s[%s]%s" % (d["body"], "+".join(d["tlvs"]), ("," + ",".join(dev)) if dev else "")


def run_c45(out, tier, seed):
    wd = vf.workdir("CsptpServer")
    res, tagged = _tlc_cases("MC_CsptpServer", "Gen_CsptpServer.cfg")
    cases = tagged["CASE"]
    if len(cases) < 500:
        raise vf.ToolError("CsptpServer: TLC printed only %d cases" % len(cases))
    _finish_mc(out, res)
    cases.sort(key=lambda c: (vf.key(c["act"]["s"]), vf.key(c["act"]["d"])))
    if tier == "thorough":
        # a second arrangement: every datagram class is also handled right after every other one in one serve() call
        rng = random.Random(seed)
        extra = []
        for c in cases:
            extra.append(c)
        bystate = {}
        for c in cases:
            bystate.setdefault(vf.key(c["act"]["s"]), []).append(c)
        for k in sorted(bystate):
            g = list(bystate[k])
            for _ in range(4):
                rng.shuffle(g)
                extra += g
        cases = extra
    rows = []
    for n, c in enumerate(cases):
        rows.append({"id": n, "s": _case_seed(vf.key(c["act"]) + str(n), seed), "act": c["act"], "out": c["out"], "cone": c["cone"]})
    inp = os.path.join(wd, "cases_C45.ndjson")
    outp = os.path.join(wd, "results_C45.ndjson")
    vf.write_ndjson(inp, rows)
    vf.run_harness(CRATE, "csptp_server::verif_csptp_server", {"input": inp, "output": outp, "seed": seed, "chunk": 16}, which="ext")
    results = vf.read_ndjson(outp)
    summary = results[-1].get("summary")
    if not summary or summary["cases"] != len(rows):
        raise vf.ToolError("CsptpServer harness did not process all cases: %s" % summary)
    if summary["answered"] == 0 or summary["unanswered"] == 0:
        raise vf.ToolError("CsptpServer replay is vacuous: %s" % summary)
    out.add("model_cases", len(tagged["CASE"]))
    out.add("replayed_cases", len(rows))
    out.add("cases_confirmed_on_impl", len(rows) - (len(results) - 1))
    out.add("impl_answered", summary["answered"])
    out.add("impl_unanswered", summary["unanswered"])
    for r in results[:-1]:
        c = rows[r["id"]]
        fields = set(r["fields"])
        hit = [f for f in _C45_PRIORITY if f in fields and f in c["cone"]]
        detail = {"how": "replay", "case": c["act"], "expected": c["out"], "observed": r["observed"], "panic": r.get("panic"),
                  "differing": sorted(fields), "case_seed": c["s"]}
        if hit:
            out.violation("CsptpServer:%s:%s" % (_c45_shape(c["act"]["d"]), hit[0]), detail)
        else:
            out.divergences.append(detail)
            out.notes.append("divergence outside C45's cone: %s fields %s" % (_c45_shape(c["act"]["d"]), sorted(fields)))
    out.sample({"case": rows[0]["act"], "expected": rows[0]["out"]})
    out.sample({"case": rows[len(rows) // 2]["act"], "expected": rows[len(rows) // 2]["out"]})


# ------------------------------------------------------------------------------------------------
# Transition tours with re-touring around failing transitions (C44, C42, C43)
# ------------------------------------------------------------------------------------------------
class TourSM(sm.SM):
    which = "ext"
    crate = CRATE

    def harness_cfg(self, cfgname, init_state):
        return {}

    def replay(self, wd, prop, rnd, seed, walks):
        """Runs the walks (lists of edge records) on the implementation; one result per walk:
        {id, steps_run, fail: first fatal failure or None, fails: [all failures]}."""
        wf = os.path.join(wd, "walks_%s_%d.ndjson" % (prop, rnd))
        rf = os.path.join(wd, "results_%s_%d.ndjson" % (prop, rnd))
        vf.write_ndjson(wf, [{"id": n, "walk": [{"act": r["act"], "post": r["post"], "out": r["out"]} for r in w]} for n, w in enumerate(walks)])
        vf.run_harness(self.crate, self.test, {"mode": "replay", "cfg": {}, "input": wf, "output": rf, "seed": seed}, which=self.which)
        return vf.read_ndjson(rf)

    def model_and_replay(self, out, prop, tier, seed, cfgname, max_len=40):
        """As sm.SM.model_and_replay, plus: a transition on which the implementation fails ends its walk (a panic kills
        run()), so the transitions behind it are re-toured on the graph without the failing transitions."""
        wd = vf.workdir("%s_%s" % (self.module, cfgname))
        t0 = time.time()
        g, mc, inits = vf.collect_graph(self.mc_module, "Gen_%s_%s.cfg" % (self.module, cfgname), workers=4, timeout=1500)
        vf.log("%s/%s: TLC %d states, %d transitions in %.1fs" % (self.module, cfgname, mc.distinct, mc.generated, time.time() - t0))
        t0 = time.time()
        if mc.violated:
            raise vf.ToolError("model %s/%s violates %s at design level:\n%s" % (self.module, cfgname, mc.violated, mc.error_trace[:3000]))
        out.add("states", mc.distinct)
        out.add("transitions", mc.generated)
        if not inits:
            raise vf.ToolError("generator printed no INIT state")
        wanted = set(i for i, e in enumerate(g.edges) if e[2]["cones"].get(prop))
        if not wanted:
            raise vf.ToolError("vacuous: no transition constrained by %s" % prop)
        confirmed, failing, blocked = set(), set(), set()
        self.graph = g
        steps = nwalks = 0
        for rnd in range(3):
            todo = wanted - confirmed - failing
            if not todo:
                break
            h = vf.Graph()
            h.ids, h.states = g.ids, g.states
            idx = []
            for i, e in enumerate(g.edges):
                if i not in blocked:
                    h.out[e[0]].append(len(h.edges))
                    h.edges.append(e)
                    idx.append(i)
            walks = h.tours(inits[0], max_len=max_len, rng=random.Random(seed + rnd), edge_filter=None)
            walks = [[idx[e] for e in w] for w in walks if any(idx[e] in todo for e in w)]
            results = self.replay(wd, prop, rnd, seed, [[g.edges[e][2] for e in w] for w in walks])
            if len(results) != len(walks):
                raise vf.ToolError("harness returned %d results for %d walks" % (len(results), len(walks)))
            for r in results:
                w = walks[r["id"]]
                steps += r["steps_run"]
                if not (r.get("fails") or r.get("fail")):
                    confirmed.update(w[:r["steps_run"]])
                fails = r.get("fails") or ([r["fail"]] if r.get("fail") is not None else [])
                if fails:
                    ok_upto = r["steps_run"] if r.get("fail") is None else r["fail"]["step"]
                    confirmed.update(w[:ok_upto])
                if r.get("fail") is not None:
                    blocked.add(w[r["fail"]["step"]])
                for f in fails:
                    e = w[f["step"]]
                    failing.add(e)
                    self.attribute(out, prop, cfgname, g.edges[e][2], f, [g.edges[x][2]["act"] for x in w[:f["step"] + 1]], "replay")
            nwalks += len(walks)
            if rnd == 0 and walks:
                w = walks[0][:5]
                out.sample({"cfg": cfgname, "walk_prefix": [g.edges[e][2]["act"] for e in w], "expected_out_of_last": g.edges[w[-1]][2]["out"]})
        vf.log("%s/%s: %d walks, %d steps replayed in %.1fs" % (self.module, cfgname, nwalks, steps, time.time() - t0))
        out.add("replayed_steps", steps)
        out.add("replayed_walks", nwalks)
        out.add("model_transitions_constrained_by_property", len(wanted))
        out.add("model_transitions_confirmed_on_impl", len((confirmed - failing) & wanted))
        out.add("model_transitions_failing_on_impl", len(failing))
        rest = wanted - confirmed - failing
        if rest and not failing:
            raise vf.ToolError("%d model transitions could not be replayed" % len(rest))
        if rest:
            out.notes.append("%d model transitions not replayed (only reachable through failing transitions within 3 tours)" % len(rest))


class CsptpClient(TourSM):
    module = "Csptp"
    mc_module = "MC_CsptpClient"
    test = "csptp_client::verif_csptp_client"

    def act_sig(self, a):
        if a["t"] == "Timeout":
            return "Timeout"
        p = a["p"]
        if p["kind"] in ("resp1", "resp2", "followup") and p["match"] == "match":
            return "Recv[%s,t3=%s,corr=%s,reqcorr=%s]" % (p["kind"], p["t3"], p["corr"], p["reqcorr"])
        return "Recv[%s,%s]" % (p["kind"], p["match"])

    def attribute(self, out, prop, cfgname, rec, fail, acts, how):
        # signature by the kind of completion rather than by every class combination: the timestamp / correction
        # classes that take the corrected send time out of range all expose the same defect
        fields = set(fail["fields"])
        cone = set(rec["cones"].get(prop, []))
        if "panic" in fields and "panic" in cone:
            m = rec["out"]["meas"]
            shape = ("completion,corrected-send-time-%s" % ("in-range" if m["inrange"] else "out-of-range")) if m["n"] else self.act_sig(rec["act"])
            detail = {"how": how, "cfg": cfgname, "history": acts, "expected": {"post": rec["post"], "out": rec["out"]},
                      "observed": fail.get("observed"), "panic": fail.get("panic"), "differing": sorted(fields)}
            out.violation("Csptp:client:%s:panic" % shape, detail)
            return
        sm.SM.attribute(self, out, prop, cfgname, rec, fail, acts, how)


# ------------------------------------------------------------------------------------------------
# C42 / C43  estimator bookkeeping and steering consistency  (Estimator.tla)
# ------------------------------------------------------------------------------------------------
class Estimator(TourSM):
    module = "Estimator"
    mc_module = "MC_Estimator"
    test = "estimator::verif_estimator"

    def act_sig(self, a):
        return a["t"]

    def attribute(self, out, prop, cfgname, rec, fail, acts, how):
        fields = set(fail["fields"])
        cones = rec["cones"]
        mine = [f for f in sorted(fields) if f in cones.get(prop, [])]
        others = [p for p, c in cones.items() if p != prop and fields & set(c)]
        detail = {"how": how, "cfg": cfgname, "history": acts, "expected": {"post": rec["post"], "out": rec["out"]},
                  "observed": fail.get("observed"), "panic": fail.get("panic"), "differing": sorted(fields)}
        if mine:
            out.violation("%s:%s[%s]:%s" % (self.module, rec["act"]["t"], rec["out"]["res"], ",".join(mine)), detail)
        elif others and not (fields - set(sum((list(cones[p]) for p in others), []))):
            out.add("failures_in_the_cone_of_other_properties_only", 1)      # e.g. F-14 (C43) seen while checking C42
        else:
            out.divergences.append(detail)
            out.notes.append("divergence outside %s's cone (%s %s, fields %s)" % (prop, self.module, rec["act"]["t"], sorted(fields)))


class EstState(Estimator):
    """spec/EstState.tla on the real (crate-private) EstimatorState: harness/statime_algo/estimator.rs, compiled into
    statime-algo's own test target.  statime-algo has no serde_json: walks and results are line-oriented text."""
    module = "EstState"
    mc_module = "MC_EstState"
    which = "algo"
    crate = "statime_algo"
    test = "estimator::verif_hook::verif_estimator_state"
    perms = 0          # identifier permutations per walk (0 = all, on both storages; n > 0: ascending, descending, drawn ones, storages alternating)

    @staticmethod
    def _csv(xs):
        return ",".join(str(x) for x in sorted(xs)) or "-"

    @staticmethod
    def _links(ls):
        return ",".join("%d-%d" % (l["a"], l["b"]) for l in sorted(ls, key=lambda l: (l["a"], l["b"]))) or "-"

    def _act(self, a):
        t = a["t"]
        if "x" in a:
            return "%s %d" % (t, a["x"])
        if t == "Measure":
            return "Measure %d %d %s %d" % (a["l"]["a"], a["l"]["b"], a["d"], 1 if a["dl"] else 0)
        if "l" in a:
            return "%s %d %d" % (t, a["l"]["a"], a["l"]["b"])
        return t

    def replay(self, wd, prop, rnd, seed, walks):
        wf = os.path.join(wd, "walks_%s_%d.txt" % (prop, rnd))
        rf = os.path.join(wd, "results_%s_%d.txt" % (prop, rnd))
        slots = None
        with open(wf, "w") as f:
            for n, w in enumerate(walks):
                f.write("W %d %d\n" % (n, _case_seed("w%d.%d" % (rnd, n), seed)))
                for r in w:
                    o = r["out"]
                    slots = len(r["post"]["kind"])
                    f.write(" ; ".join([self._act(r["act"]), o["res"], self._csv(o["sameC"]), self._links(o["sameL"]), self._csv(o["int"]),
                                        self._csv(o["ext"]), self._links(o["links"])]) + "\n")
                f.write("E\n")
        vf.run_harness(self.crate, self.test, {"mode": "replay", "input": wf, "output": rf, "seed": seed, "slots": slots, "perms": self.perms},
                       which=self.which)
        results, byid = [], {}
        for line in open(rf):
            line = line.rstrip("\n")
            if line.startswith("R "):
                _, i, steps, nvar = line.split()
                byid[int(i)] = {"id": int(i), "steps_run": int(steps), "variants": int(nvar), "fail": None, "fails": []}
                results.append(byid[int(i)])
            elif line.startswith("F "):
                head, obs = line.split(" | ", 1)
                _, i, step, variant, fields, fatal = head.split()
                f = {"step": int(step), "fields": fields.split(","), "observed": {"variant": variant, "text": obs},
                     "panic": obs[obs.index("panic: "):] if "panic: " in obs else None}
                if fatal == "fatal":
                    byid[int(i)]["fail"] = f
                byid[int(i)]["fails"].append(f)
            elif line.startswith("S "):
                _, k, v = line.split()
                self.stats[k] = self.stats.get(k, 0) + int(v)
        return results

    def __init__(self):
        self.stats = {}


def steer_cases(out, prop, tier, seed):
    """spec/SteerCases.tla: TLC enumerates (offset, limit) cases of the steering decision with the exact clamped frequency;
    the harness runs each on a fresh real controller."""
    cases = []
    res = vf.run_tlc("SteerCases", "SteerCases.cfg", workers=1, timeout=300, tags=("SCASE",), line_sink=lambda t, o: cases.append(o), coverage=False)
    if res.violated or not cases:
        raise vf.ToolError("SteerCases: %s" % (res.violated or "no cases"))
    cases.sort(key=vf.key)
    wd = vf.workdir("SteerCases")
    inp, outp = os.path.join(wd, "cases.ndjson"), os.path.join(wd, "results.ndjson")
    vf.write_ndjson(inp, cases)
    vf.run_harness("verif_ext", Estimator.test, {"mode": "steer_cases", "input": inp, "output": outp, "seed": seed}, which="ext")
    results = vf.read_ndjson(outp)
    if len(results) != len(cases):
        raise vf.ToolError("steer cases: %d results for %d cases" % (len(results), len(cases)))
    for r in results:
        mine = [f for f in r["fields"] if f in ("out.fmax", "out.dfreq", "out.applied", "panic")]
        if mine:
            c = r["case"]
            out.violation("SteerCases:o=%d,m=%d,%s:%s" % (c["o"], c["m"], c["kind"], ",".join(sorted(mine))), {"case": c, "observed": r["observed"]})
        elif r["fields"]:
            out.notes.append("steer case %s differs outside C43's cone: %s" % (r["case"], r["fields"]))
    out.add("steer_cases_confirmed", len(results))
    out.add("states", res.distinct)
    out.add("transitions", len(cases))


def run_estimator(out, prop, tier, seed):
    if prop == "C43":
        steer_cases(out, prop, tier, seed)
    # the estimator itself (crate-private EstimatorState, caller-chosen identifiers, both storages)
    es = EstState()
    es.perms = 0       # every assignment of real ClockIds to the model's identifiers, on both storages
    es.model_and_replay(out, prop, tier, seed, tier, max_len=40)
    out.add("estimator_state_steps_replayed_over_all_identifier_permutations_and_storages", es.stats.get("steps_replayed", 0))
    # the controller (public API)
    # (quick: three identifiers; a clock is created behind a link row once a tracked link has been driven to active, the
    # older link is then removed: index shifts.  The former four-identifier "wide" quick run is subsumed by EstState.)
    e = Estimator()
    e.model_and_replay(out, prop, tier, seed, tier, max_len=40)
    out.add("traces_validated_against_impl", 0)
    sp = os.path.join(vf.workdir("Estimator_%s" % tier), "results_%s_0.ndjson.stats" % prop)
    st = json.load(open(sp))
    out.add("set_frequency_calls_observed", st["set_frequency_calls"])
    out.add("step_clock_calls_observed", st["step_clock_calls"])
    out.add("steer_relations_evaluated", st["steer_relations_evaluated"])
    out.add("steer_relations_skipped_numerically_degenerate", st["steer_relations_skipped_degenerate"])
    out.add("steer_relations_nontrivial_system_clock", st["steer_relations_nontrivial_system_clock"])
    out.add("steer_relations_nontrivial_other_clocks", st["steer_relations_nontrivial_other_clocks"])
    out.add("link_activations_attempted", st["activations_attempted"])
    out.add("link_activations_achieved", st["activations_achieved"])
    out.add("link_activations_skipped_numerically_degenerate", st["activations_skipped_degenerate"])
    out.add("clocks_added_behind_an_active_tracked_link", st["clocks_added_behind_an_active_tracked_link"])
    if prop == "C43" and (st["activations_achieved"] == 0 or st["clocks_added_behind_an_active_tracked_link"] == 0):
        raise vf.ToolError("C43 vacuous: no clock was added behind an active tracked link (%d of %d activations achieved)"
                           % (st["activations_achieved"], st["activations_attempted"]))
    if prop == "C43" and st["steer_relations_evaluated"] == 0:
        raise vf.ToolError("C43 vacuous: no steering relation could be evaluated")
    if prop == "C43" and st["set_frequency_calls"] + st["step_clock_calls"] == 0:
        raise vf.ToolError("C43 vacuous: the controller never steered a mock clock")


# ------------------------------------------------------------------------------------------------
def run(prop, tier, seed):
    out = vf.Outcome(prop, tier, seed, "model_checking")
    out.assumptions += ["code observed as compiled for tests (debug assertions, overflow checks on)",
                        "statime crates driven through their public API only (harness/ext)" if prop not in ("C42", "C43") else
                        "controller driven through the public API only (harness/ext); EstimatorState driven directly from a cfg-guarded "
                        "test-only child module of statime-algo/src/estimator.rs"]
    if prop == "C41":
        out.coverage["rule"] = ("every message / datagram class of the bounded PtpWire grammar (TLC-enumerated, round-trip laws checked on the "
                                "specification's codec) is concretised on the real statime_wire::Message and compared with the specification; "
                                "byte-level part: seeded mutations of concretised datagrams and random strings <= 4096 bytes, oracle = no panic "
                                "and round trip of every accepted string; distinct_nontrivial = distinct (message type, length bucket) of "
                                "accepted strings")
        out.assumptions.append("only canonical field values (decode(encode(v)) = v, reserved bits zero) are generated for the equality clauses")
        run_c41(out, tier, seed)
    elif prop == "C45":
        out.coverage["rule"] = ("every (server state, datagram class) pair of the bounded CsptpServer model (C45_Step checked by TLC on the "
                                "specification) is run through the real statime_csptp::serve with a recording ServerSocket, 16 datagrams per "
                                "serve() call; sent datagrams are decoded by the harness's own decoder and compared field by field")
        out.assumptions.append("the leap indicator of the server state cannot be set through the public API (time_snapshot is never updated): "
                               "only the default (no leap flags) is exercised")
        run_c45(out, tier, seed)
    elif prop == "C44":
        out.coverage["rule"] = ("every transition of the bounded client model (RequestState machine x datagram classes x timeouts, C44_Step "
                                "checked by TLC in every reachable state) is covered by a transition tour replayed on the real "
                                "CsptpSource::run with a scripted ClientSocket on the paused tokio clock")
        out.assumptions.append("the status update of the manager (steps_removed + 1) is not exercised: no source is marked active")
        CsptpClient().model_and_replay(out, prop, tier, seed, tier, max_len=40)
        out.add("traces_validated_against_impl", 0)
    elif prop in ("C42", "C43"):
        out.coverage["rule"] = ("every transition constrained by the property of (a) the bounded EstState model of the estimator itself and (b) "
                                "the bounded Estimator model of the controller is covered by a transition tour; (a) is replayed on the real "
                                "EstimatorState over both storages with model identifiers mapped to real ClockIds through every "
                                "permutation, (b) on the real KalmanController/"
                                "KalmanLink with recording mock clocks; estimates of all live clocks (clock_offset, clock_frequency; (a) also "
                                "link_delay: value and uncertainty) are snapshotted bitwise around every operation; numeric relations of C43 "
                                "are evaluated by the harness with the property's tolerance")
        out.assumptions += ["estimates are opaque tokens in the specification (DESIGN 5.4); link delays are not observable through the public API "
                            "(they are compared at the EstimatorState level only)",
                            "link activation at the controller level is driven by the harness with temporary reference objects (external clock, "
                            "untracked links) and is attempted only in the numerically sane regime",
                            "LinkFilterConfig has no public constructor: the harness obtains a zeroed value by type inference and sets its public fields"]
        run_estimator(out, prop, tier, seed)
    else:
        raise vf.ToolError("no check for %s" % prop)
    return out


PROPS = ["C41", "C45", "C44", "C42", "C43"]

_T = ("TLA+ grammar/codec specification model-checked with TLC over the bounded input-class space; every class concretised and "
      "replayed on the real code through the stand-alone harness (harness/ext)")
MANIFEST = {
    "C41": dict(level="model_checking", technique=_T, design_ref="6.11, 7 (C41), 9 (F-13)", engine="tlc+replay",
                text="10 body types x header/body value classes x TLV sequences (<= 3 TLVs quick: <= 2, value lengths 0/2/4/6, odd and "
                     "overrunning lengths, stray bytes, padding, message_length and truncation classes): serialise->parse equality incl. TLV "
                     "enumeration, parse->serialise prefix, no panic; plus seeded byte-level mutation for parse totality.",
                note="bounded grammar; canonical field values only; byte-level totality is exploration (seeded mutations), not a proof; "
                     "error kinds (Invalid vs BufferTooShort) and the acceptance of non-serialised byte strings are outside the cone"),
    "C42": dict(level="model_checking", technique="two TLA+ bookkeeping state machines with opaque estimate tokens model-checked with TLC: "
                "spec/EstState.tla (the estimator itself: caller-chosen identifiers, several external clocks, duplicate and repeated "
                "adds) and spec/Estimator.tla (the controller); every explored transition replayed (transition tours) on the real "
                "EstimatorState (harness compiled into statime-algo's test target, both storages, identifier permutations) resp. the "
                "real KalmanController/KalmanLink, estimates snapshotted bitwise around every operation",
                design_ref="5.4, 6.11, 7 (C42)", engine="tlc+replay",
                text="EstimatorState: 3 (thorough 4) caller-chosen clock identifiers, each unknown / internal / external (any number of "
                     "external clocks, re-adding after removal), <= 2 links, add/remove of clocks, external clocks and links incl. every "
                     "unknown and duplicate variant (internal/external/link already present, wrong kind, unknown link), measurements with and "
                     "without link delay, time progression, backwards time, absorbed steps; every walk replayed under every assignment "
                     "of real ClockIds to the identifiers (all permutations) on StdKalmanStorage and NoAllocKalmanStorage; "
                     "result class, is_internal/is_external/is_known of every identifier and clock_offset / clock_frequency / link_delay "
                     "(value and uncertainty, bitwise) of all other clocks and links compared after every step.  Controller: <= 3 steered "
                     "clocks + external clocks, <= 2 links (tracked/untracked), tracked links driven to active, all add/remove operations "
                     "incl. failing variants, measurements and a backwards time step.",
                note="removal of a clock that a link still uses, links/measurements between two external clocks and duplicate controller "
                     "links are not generated (outcome unspecified); a link operation is not required to preserve its own end points' "
                     "estimates; error kinds and the reported membership after successful operations are outside the cone (divergences)"),
    "C43": dict(level="model_checking", technique="TLA+ bookkeeping state machines (spec/Estimator.tla for the controller, spec/EstState.tla for "
                "the estimator, spec/SteerCases.tla for the steering decision) model-checked with TLC; transition tours replayed on the "
                "real KalmanController with recording mock clocks and on the real EstimatorState; numeric relations evaluated by the "
                "harness with the property's tolerance (1e-9 relative + 1 ns)",
                design_ref="5.4, 6.11, 7 (C43), 9 (F-14)", engine="tlc+replay",
                text="controller: frequency query right after add_clock reports 0 +- max_frequency (not the offset 0 +- 1e18), also for a "
                     "clock added AFTER a tracked link has been driven to active (its delay row precedes the clock; real activity "
                     "reported by KalmanLink::active, vacuity-guarded); every set_frequency on a mock clock within its max frequency (all "
                     "measurement, activation and steering steps); on pure steering steps (one measurement over a fresh temporary tracked "
                     "link: only steer_clocks runs) each clock's offset / frequency estimate moves by the applied step / frequency change "
                     "(+ frequency x elapsed time).  Estimator: a clock added with given offset and frequency in any layout of clock and "
                     "link rows reports exactly those through clock_offset / clock_frequency; an absorbed step / frequency change moves "
                     "that clock's offset / frequency estimate by it.  Steering decision cases: clamp to the clock's limit.",
                note="the controller-level move-by-step relation is evaluated only in the numerically sane regime (finite, |offset| < 1e6 "
                     "s); link activation needs harness-made reference measurements (the controller steps clocks of unknown offset, which "
                     "discards round trips)"),
    "C44": dict(level="model_checking", technique="TLA+ state machine (spec/Csptp.tla client part) model-checked with TLC; every explored "
                "transition replayed on the real CsptpSource::run (transition tour, scripted socket, paused clock)",
                design_ref="6.11, 7 (C44), 9 (F-15)", engine="tlc+replay",
                text="RequestState machine over 2 (thorough: 3) requests x ~70 datagram classes (one-/two-step responses, follow-ups, "
                     "requests, other PTP, garbage, missing receive timestamp; matching / wrong sequence id / wrong domain; origin timestamp "
                     "0 / mid / 2^48-1 s; corrections 0, +-1 ns, i64::MAX/MIN): a measurement only from matching response (+ follow-up, "
                     "either order), at most once per request, provenance by tagged timestamps, no panic.",
                note="'only from' is read one-directionally: a missing measurement is reported as a divergence, not a violation; values "
                     "of corrected timestamps are compared only when in range and lie outside the cone; status handling not exercised"),
    "C45": dict(level="model_checking", technique=_T, design_ref="6.11, 7 (C45)", engine="tlc+replay",
                text="48 server states (timescale/traceability flags x receive-time class x send_event result) x 90 datagram classes "
                     "(well-formed requests over ids, correction classes, flags, TLV arrangements; one-deviation non-requests): answered iff "
                     "well-formed request; response echoes domain, sequence id, receive time, correction, announces follow-up; follow-up "
                     "carries send_event's timestamp; nothing else is sent.",
                note="leap flags only in their default state (not settable through the public API); header constants, addresses and the "
                     "status TLV's content are compared but lie outside the cone"),
}
