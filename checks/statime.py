"""Checks for the statime (PTP / CSPTP) crates, driven through the stand-alone harness package harness/ext
(public API only): C41 (spec/PtpWire.tla), C45 C44 (spec/Csptp.tla), C42 C43 (spec/Estimator.tla)."""
import os, json, zlib, random
import vf

CRATE = "verif_ext"


def _case_seed(key, seed):
    return (zlib.crc32(key.encode()) ^ ((seed * 2654435761) & 0xFFFFFFFF)) & 0xFFFFFFFF


def _tlc_cases(module, cfg, tags=("CASE",), timeout=1500):
    """One TLC run: checks the configuration's invariants on the model and returns the printed cases
    (sorted, so that ids and per-case seeds do not depend on TLC's enumeration order)."""
    res = vf.run_tlc(module, cfg, workers=4, timeout=timeout, tags=tags, coverage=False)
    if res.violated:
        raise vf.ToolError("model %s/%s violates %s at design level:\n%s" % (module, cfg, res.violated, res.error_trace[:3000]))
    out = {}
    for t in tags:
        rows = res.lines.get(t, [])
        rows.sort(key=vf.key)
        out[t] = rows
    return res, out


def _finish_mc(out, res):
    out.add("states", res.distinct)
    out.add("transitions", res.generated)
    out.add("traces_validated_against_impl", 0)


# ------------------------------------------------------------------------------------------------
# C41  PTP messages round-trip  (PtpWire.tla)
# ------------------------------------------------------------------------------------------------
_C41_PRIORITY = ["panic", "ser", "size", "parse", "res", "used", "ntlv", "equal", "iter", "reser"]


def _c41_shape(act):
    if act["dir"] == "ser":
        t, dev = act["m"]["tlvs"], []
    else:
        d = act["d"]
        t = d["items"]
        dev = ["%s=%s" % (k, d[k]) for k in ("short", "junk") if d[k]]
        dev += ["ml=" + d["ml"]] if d["ml"] != "exact" else []
        dev += ["cut=" + d["cut"]] if d["cut"] != "none" else []
    tail = "none" if not t else ("empty" if t[-1]["l"] == 0 else "nonempty")
    return ",".join(["tail=" + tail] + dev)


def run_c41(out, tier, seed):
    wd = vf.workdir("PtpWire")
    res, tagged = _tlc_cases("MC_PtpWire", "Gen_PtpWire_%s.cfg" % tier)
    cases = tagged["CASE"]
    if len(cases) < 1000:
        raise vf.ToolError("PtpWire: TLC printed only %d cases" % len(cases))
    _finish_mc(out, res)
    rows = []
    for n, c in enumerate(cases):
        k = vf.key(c["act"])
        rows.append({"id": n, "s": _case_seed(k, seed), "act": c["act"], "out": c["out"], "cone": c["cone"]})
    inp = os.path.join(wd, "cases_C41.ndjson")
    outp = os.path.join(wd, "results_C41.ndjson")
    vf.write_ndjson(inp, rows)
    vf.run_harness(CRATE, "ptpwire::verif_ptpwire", {"mode": "replay", "input": inp, "output": outp, "seed": seed}, which="ext")
    results = vf.read_ndjson(outp)
    summary = results[-1].get("summary")
    if not summary or summary["cases"] != len(rows):
        raise vf.ToolError("PtpWire harness did not process all cases: %s" % summary)
    if summary["accepted"] == 0 or summary["rejected"] == 0:
        raise vf.ToolError("PtpWire replay is vacuous: %s" % summary)
    nser = sum(1 for r in rows if r["act"]["dir"] == "ser")
    out.add("model_cases", len(rows))
    out.add("model_cases_serialise_direction", nser)
    out.add("model_cases_parse_direction", len(rows) - nser)
    out.add("cases_confirmed_on_impl", len(rows) - summary["failing"])
    out.add("impl_accepted", summary["accepted"])
    out.add("impl_rejected", summary["rejected"])
    for r in results[:-1]:
        c = rows[r["id"]]
        fields = set(r["fields"])
        hit = [f for f in _C41_PRIORITY if f in fields and f in c["cone"]]
        detail = {"how": "replay", "case": c["act"], "expected": c["out"], "observed": r["observed"], "panic": r.get("panic"),
                  "differing": sorted(fields), "cone": c["cone"], "case_seed": c["s"]}
        if fields == {"errkind"}:
            out.add("error_kind_differences_outside_cone", 1)
        elif hit:
            out.violation("PtpWire:%s:%s:%s" % (c["act"]["dir"], _c41_shape(c["act"]), hit[0]), detail)
        else:
            out.divergences.append(detail)
            out.notes.append("divergence outside C41's cone: %s %s fields %s" % (c["act"]["dir"], _c41_shape(c["act"]), sorted(fields)))
    out.sample({"case": rows[0]["act"], "expected": rows[0]["out"]})
    out.sample({"case": rows[-1]["act"], "expected": rows[-1]["out"]})

    # byte-level exploration of parse totality: seeded mutations of concretised datagram classes and random strings
    pr = [r for r in rows if r["act"]["dir"] == "parse"]
    rng = random.Random(seed)
    sample = rng.sample(pr, min(len(pr), 600))
    finp = os.path.join(wd, "fuzz_seeds_C41.ndjson")
    foutp = os.path.join(wd, "fuzz_results_C41.ndjson")
    vf.write_ndjson(finp, sample)
    n = 30000 if tier == "quick" else 600000
    vf.run_harness(CRATE, "ptpwire::verif_ptpwire", {"mode": "fuzz", "input": finp, "output": foutp, "seed": seed, "n": n}, which="ext")
    fres = vf.read_ndjson(foutp)
    fs = fres[-1].get("summary")
    if not fs or fs["evaluations"] != n or fs["accepted"] < 10:
        raise vf.ToolError("PtpWire byte-level exploration is vacuous or incomplete: %s" % fs)
    out.add("evaluations", n)
    out.add("distinct_nontrivial", fs["distinct_accepted_shapes"])
    out.add("byte_strings_accepted", fs["accepted"])
    for r in fres[:-1]:
        out.violation("PtpWire:bytes:%s:%s" % (r["kind"], r["msg"][:60]), {"how": "byte-level exploration", **r})


# ------------------------------------------------------------------------------------------------
# C45  CSPTP server answers only requests, with correct echoes  (Csptp.tla, server part)
# ------------------------------------------------------------------------------------------------
_C45_PRIORITY = ["panic", "nsend", "ev_kind", "ev_domain", "ev_seq", "ev_ingress", "ev_reqcorr", "ev_twostep",
                 "fu_kind", "fu_domain", "fu_seq", "fu_origin"]


def _c45_shape(d):
    dev = []
    if d["parse"] != "ok":
        dev.append("parse=" + d["parse"])
    if d["sdo"] != "csptp":
        dev.append("sdo=other")
    if d["major"] != 2:
        dev.append("major=%d" % d["major"])
    if d["pad"]:
        dev.append("padded")
    return "%s[%s]%s" % (d["body"], "+".join(d["tlvs"]), ("," + ",".join(dev)) if dev else "")


def run_c45(out, tier, seed):
    wd = vf.workdir("CsptpServer")
    res, tagged = _tlc_cases("MC_CsptpServer", "Gen_CsptpServer.cfg")
    cases = tagged["CASE"]
    if len(cases) < 500:
        raise vf.ToolError("CsptpServer: TLC printed only %d cases" % len(cases))
    _finish_mc(out, res)
    cases.sort(key=lambda c: (vf.key(c["act"]["s"]), vf.key(c["act"]["d"])))
    if tier == "thorough":
        # a second arrangement: every datagram class is also handled right after every other one in one serve() call
        rng = random.Random(seed)
        extra = []
        for c in cases:
            extra.append(c)
        bystate = {}
        for c in cases:
            bystate.setdefault(vf.key(c["act"]["s"]), []).append(c)
        for k in sorted(bystate):
            g = list(bystate[k])
            for _ in range(4):
                rng.shuffle(g)
                extra += g
        cases = extra
    rows = []
    for n, c in enumerate(cases):
        rows.append({"id": n, "s": _case_seed(vf.key(c["act"]) + str(n), seed), "act": c["act"], "out": c["out"], "cone": c["cone"]})
    inp = os.path.join(wd, "cases_C45.ndjson")
    outp = os.path.join(wd, "results_C45.ndjson")
    vf.write_ndjson(inp, rows)
    vf.run_harness(CRATE, "csptp_server::verif_csptp_server", {"input": inp, "output": outp, "seed": seed, "chunk": 16}, which="ext")
    results = vf.read_ndjson(outp)
    summary = results[-1].get("summary")
    if not summary or summary["cases"] != len(rows):
        raise vf.ToolError("CsptpServer harness did not process all cases: %s" % summary)
    if summary["answered"] == 0 or summary["unanswered"] == 0:
        raise vf.ToolError("CsptpServer replay is vacuous: %s" % summary)
    out.add("model_cases", len(tagged["CASE"]))
    out.add("replayed_cases", len(rows))
    out.add("cases_confirmed_on_impl", len(rows) - (len(results) - 1))
    out.add("impl_answered", summary["answered"])
    out.add("impl_unanswered", summary["unanswered"])
    for r in results[:-1]:
        c = rows[r["id"]]
        fields = set(r["fields"])
        hit = [f for f in _C45_PRIORITY if f in fields and f in c["cone"]]
        detail = {"how": "replay", "case": c["act"], "expected": c["out"], "observed": r["observed"], "panic": r.get("panic"),
                  "differing": sorted(fields), "case_seed": c["s"]}
        if hit:
            out.violation("CsptpServer:%s:%s" % (_c45_shape(c["act"]["d"]), hit[0]), detail)
        else:
            out.divergences.append(detail)
            out.notes.append("divergence outside C45's cone: %s fields %s" % (_c45_shape(c["act"]["d"]), sorted(fields)))
    out.sample({"case": rows[0]["act"], "expected": rows[0]["out"]})
    out.sample({"case": rows[len(rows) // 2]["act"], "expected": rows[len(rows) // 2]["out"]})


# ------------------------------------------------------------------------------------------------
def run(prop, tier, seed):
    out = vf.Outcome(prop, tier, seed, "model_checking")
    out.assumptions += ["code observed as compiled for tests (debug assertions, overflow checks on)",
                        "statime crates driven through their public API only (harness/ext)"]
    if prop == "C41":
        out.coverage["rule"] = ("every message / datagram class of the bounded PtpWire grammar (TLC-enumerated, round-trip laws checked on the "
                                "specification's codec) is concretised on the real statime_wire::Message and compared with the specification; "
                                "byte-level part: seeded mutations of concretised datagrams and random strings <= 4096 bytes, oracle = no panic "
                                "and round trip of every accepted string; distinct_nontrivial = distinct (message type, length bucket) of "
                                "accepted strings")
        out.assumptions.append("only canonical field values (decode(encode(v)) = v, reserved bits zero) are generated for the equality clauses")
        run_c41(out, tier, seed)
    elif prop == "C45":
        out.coverage["rule"] = ("every (server state, datagram class) pair of the bounded CsptpServer model (C45_Step checked by TLC on the "
                                "specification) is run through the real statime_csptp::serve with a recording ServerSocket, 16 datagrams per "
                                "serve() call; sent datagrams are decoded by the harness's own decoder and compared field by field")
        out.assumptions.append("the leap indicator of the server state cannot be set through the public API (time_snapshot is never updated): "
                               "only the default (no leap flags) is exercised")
        run_c45(out, tier, seed)
    else:
        raise vf.ToolError("no check for %s" % prop)
    return out


PROPS = ["C41", "C45"]

_T = ("TLA+ grammar/codec specification model-checked with TLC over the bounded input-class space; every class concretised and "
      "replayed on the real code through the stand-alone harness (harness/ext)")
MANIFEST = {
    "C41": dict(level="model_checking", technique=_T, design_ref="6.11, 7 (C41), 9 (F-13)", engine="tlc+replay",
                text="10 body types x header/body value classes x TLV sequences (<= 3 TLVs quick: <= 2, value lengths 0/2/4/6, odd and "
                     "overrunning lengths, stray bytes, padding, message_length and truncation classes): serialise->parse equality incl. TLV "
                     "enumeration, parse->serialise prefix, no panic; plus seeded byte-level mutation for parse totality.",
                note="bounded grammar; canonical field values only; byte-level totality is exploration (seeded mutations), not a proof; "
                     "error kinds (Invalid vs BufferTooShort) and the acceptance of non-serialised byte strings are outside the cone"),
    "C45": dict(level="model_checking", technique=_T, design_ref="6.11, 7 (C45)", engine="tlc+replay",
                text="48 server states (timescale/traceability flags x receive-time class x send_event result) x 90 datagram classes "
                     "(well-formed requests over ids, correction classes, flags, TLV arrangements; one-deviation non-requests): answered iff "
                     "well-formed request; response echoes domain, sequence id, receive time, correction, announces follow-up; follow-up "
                     "carries send_event's timestamp; nothing else is sent.",
                note="leap flags only in their default state (not settable through the public API); header constants, addresses and the "
                     "status TLV's content are compared but lie outside the cone"),
}
