"""Checks decided with spec/ClockSel.tla (pure decision functions) and spec/ClockCtl.tla (controller, wrapper loop):
C01 C02 C03 C04 C37 (model_checking) and C06 (exploration, spec/FilterShapes.tla)."""
import os, json, random
import vf, sm

CRATE = "ntp_proto"
TEST = "algorithm::kalman::verif_hook::verif_kalman"


# ------------------------------------------------------------------------------------------------
# pure-function enumerations (ClockSel): TLC enumerates + checks the declarative property, the harness
# evaluates the real function on every case, python compares
# ------------------------------------------------------------------------------------------------
def pure_cases(out, cfg, what):
    cases = []
    res = vf.run_tlc("MC_ClockSel", "Gen_ClockSel_%s.cfg" % cfg, workers=8, timeout=1500, tags=("EDGE",),
                     line_sink=lambda tag, obj: cases.append(obj), coverage=False)
    if res.violated:
        raise vf.ToolError("model MC_ClockSel/%s violates %s at design level:\n%s" % (cfg, res.violated, res.error_trace[:3000]))
    if not cases:
        raise vf.ToolError("vacuous: MC_ClockSel/%s enumerated no case" % cfg)
    # canonical order (TLC workers print in any order): determinism for a given seed
    cases.sort(key=vf.key)
    out.add("states", res.distinct)
    out.add("transitions", len(cases))
    return cases


def run_pure(out, prop, cfg, mode, seed):
    cases = pure_cases(out, cfg, mode)
    wd = vf.workdir("ClockSel_%s" % cfg)
    inp = os.path.join(wd, "cases_%s.ndjson" % prop)
    outp = os.path.join(wd, "results_%s.ndjson" % prop)
    vf.write_ndjson(inp, cases)
    vf.run_harness(CRATE, TEST, {"mode": mode, "input": inp, "output": outp, "seed": seed})
    results = vf.read_ndjson(outp)
    if len(results) != len(cases):
        raise vf.ToolError("harness returned %d results for %d cases" % (len(results), len(cases)))
    return cases, results


def cand_sig(c):
    return "%d-%d%s" % (c["lo"], c["hi"], {"ok": "", "periodic": "p", "unsync": "u"}[c["kind"]])


def select_pure(out, prop, tier, seed):
    cfg = "select" if tier == "quick" else "selectbig"
    cases, results = run_pure(out, prop, cfg, "select", seed)
    nonempty = 0
    ties = 0
    for case, r in zip(cases, results):
        exp = case["sel"]
        if exp:
            nonempty += 1
        ends = [c["lo"] for c in case["c"]] + [c["hi"] for c in case["c"]]
        if len(set(ends)) < len(ends):
            ties += 1
        if r.get("panic") is not None or r["sel"] != exp:
            sig = "Select:m=%d,w=%d:[%s]" % (case["m"], case["w"], " ".join(cand_sig(c) for c in case["c"]))
            out.violation(sig, {"how": "replay", "case": case, "expected_selection": exp, "observed": r.get("sel"),
                                "panic": r.get("panic"), "differing": ["out.sel"]})
    if nonempty < 2 or ties < 2:
        raise vf.ToolError("vacuous select enumeration (%d non-empty selections, %d tie cases)" % (nonempty, ties))
    out.add("model_transitions_constrained_by_property", len(cases))
    out.add("model_transitions_confirmed_on_impl", len(cases))
    out.add("select_cases_with_nonempty_selection", nonempty)
    out.add("select_cases_with_equal_ends", ties)
    pick = [c for c in cases if len(c["sel"]) >= 2][:1] + [c for c in cases if c["c"] and not c["sel"]][:1]
    for c in pick:
        out.sample({"select_case": c})


def leap_pure(out, prop, tier, seed):
    cfg = "leap" if tier == "quick" else "leapbig"
    cases, results = run_pure(out, prop, cfg, "leap", seed)
    kinds = set()
    for case, r in zip(cases, results):
        exp = case["vote"]
        kinds.add(exp)
        for order, v in enumerate(r["votes"]):
            if not case["l"]:
                ok = v["vote"] == "keep" and not v.get("combined", True)
            else:
                ok = v["vote"] == exp and v.get("used") == len(case["l"])
            if not ok:
                cnt = {x: case["l"].count(x) for x in ("none", "59", "61", "unknown")}
                sig = "VoteLeap:none=%d,59=%d,61=%d,unknown=%d" % (cnt["none"], cnt["59"], cnt["61"], cnt["unknown"])
                out.violation(sig, {"how": "replay", "case": case, "order": order, "expected_vote": exp, "observed": v,
                                    "differing": ["out.vote"]})
    if kinds != {"none", "59", "61", "keep"}:
        raise vf.ToolError("vacuous leap enumeration: outcomes %s" % sorted(kinds))
    out.add("model_transitions_constrained_by_property", len(cases))
    out.add("model_transitions_confirmed_on_impl", len(cases))
    out.add("leap_orders_replayed", 3 * len(cases))
    out.sample({"leap_case": [c for c in cases if c["vote"] == "keep" and len(c["l"]) >= 4][:1]})


# ------------------------------------------------------------------------------------------------
# bounded configurations of MC_ClockCtl (spec/MC_ClockCtl_<name>.cfg, spec/Gen_ClockCtl_<name>.cfg are generated
# from this table by `python3 checks/clock.py --gen` and committed)
# ------------------------------------------------------------------------------------------------
INF = 9999
_DEF = dict(N=1, MinAgree=1, StepThresh=0, SFwd2=INF, SBwd2=INF, Fwd2=INF, Bwd2=INF, Acc2=INF, TrackFreq=False, F0=0, F0Neg=False,
            MaxSteer=495, SlewMax=200, MaxSamples=1, Ghosts=False, Readd=True, OffPos=[0, 2], OffNeg=[], LeapVals=["none"], Wides=[False],
            MaxChan=1, Bound=6, UsableVals=[True])


def _c(**kw):
    d = dict(_DEF)
    d.update(kw)
    return d


CFGS = {
    # thresholds (half seconds: 2t = t s, 2t+1 / 2t-1 = one unit of 2^-32 s above / below t s)
    "ThrA": _c(SBwd2=6, Fwd2=4, Bwd2=5, OffPos=[1, 2, 3], OffNeg=[1, 2, 3]),
    "ThrB": _c(SFwd2=3, Acc2=8, OffPos=[1, 2, 3], OffNeg=[1, 2], MaxSamples=2),
    "ThrC": _c(Fwd2=6, Bwd2=3, Acc2=7, OffPos=[0, 1, 2, 3], OffNeg=[1, 2]),
    "ThrD": _c(N=2, MinAgree=2, Fwd2=4, Bwd2=4, MaxChan=2, OffPos=[0, 2, 3], OffNeg=[2]),
    # sources that never announce a leap status (GPS/PPS-like, or no vote majority): the phase change start-up ->
    # running and the accumulation of steps must not depend on the leap vote
    "ThrL": _c(SBwd2=6, Fwd2=4, Bwd2=5, Acc2=7, OffPos=[1, 2, 3], OffNeg=[1, 2], LeapVals=["unknown", "none"]),
    # frequency (single source slot, slews for |change| <= 1 s)
    "FrqA": _c(TrackFreq=True, StepThresh=1, Fwd2=5, OffPos=[0, 1, 2], OffNeg=[1], Bound=2),
    "FrqB": _c(TrackFreq=True, StepThresh=1, F0=445, OffPos=[0, 1, 2], OffNeg=[1]),
    "FrqC": _c(TrackFreq=True, StepThresh=1, F0=990, F0Neg=True, OffPos=[0, 1], OffNeg=[1], Bound=1),
    "FrqD": _c(TrackFreq=True, StepThresh=1, SlewMax=600, OffPos=[0, 1], OffNeg=[1], MaxChan=2),
    # consensus and leap vote end to end
    "ConsA": _c(N=3, MinAgree=2, Readd=False, OffPos=[0, 2], Wides=[False, True], UsableVals=[True, False], Bound=2),
    "ConsB": _c(N=3, MinAgree=1, Readd=False, OffPos=[0], LeapVals=["none", "59", "61", "unknown", "unsync"], Bound=0),
    "ConsC": _c(N=3, MinAgree=2, Readd=False, OffPos=[0], LeapVals=["none", "59", "unknown"], UsableVals=[True, False], Bound=0),
    # a falseticker (usable, not selected) with a leap flag of its own: it must never decide a tie among the selected
    "ConsL": _c(N=3, MinAgree=2, Readd=False, OffPos=[0, 3], LeapVals=["none", "61"], Bound=3),
    # interleavings of source-task operations with the controller loop
    "ChanA": _c(N=2, MaxChan=2, Ghosts=True, Readd=False, OffPos=[0, 2], UsableVals=[True, False], Bound=2),
    "ChanG": _c(N=1, MaxChan=2, Ghosts=True, OffPos=[0, 2], UsableVals=[True, False], Bound=2),
    "ChanS": _c(N=1, MaxChan=3, MaxSamples=2, OffPos=[0, 2], Bound=4),
    "ChanB": _c(N=3, MaxChan=2, Readd=False, OffPos=[0, 2], UsableVals=[True, False], Bound=2),
}


def _tla(v):
    if isinstance(v, bool):
        return "TRUE" if v else "FALSE"
    if isinstance(v, int):
        return str(v)
    if isinstance(v, str):
        return '"%s"' % v
    if isinstance(v, list):
        return "{" + ", ".join(_tla(x) for x in v) + "}"
    raise ValueError(v)


INVS = "TypeOK C01_StepsWithinThresholds C02_FrequencyBounds C03_MajorityConsensus C04_LeapMajority C37_OnlyRegisteredUsable"


def gen_cfgs():
    for name, c in CFGS.items():
        body = "CONSTANTS\n" + "".join("  %s = %s\n" % (k, _tla(v)) for k, v in c.items())
        for kind, ini, nxt in (("MC", "Init", "Next"), ("Gen", "GenInit", "GenNext")):
            with open(os.path.join(vf.SPEC, "%s_ClockCtl_%s.cfg" % (kind, name)), "w") as f:
                f.write(body + "INIT %s\nNEXT %s\nCHECK_DEADLOCK FALSE\nINVARIANTS %s\n" % (ini, nxt, INVS))


# ------------------------------------------------------------------------------------------------
# ClockCtl: model + transition-tour replay through the real wrapper
# ------------------------------------------------------------------------------------------------
QUICK = {
    "C01": ["ThrA", "ThrB", "ThrC", "ThrL", "FrqA"],
    "C02": ["FrqA", "FrqC", "FrqD"],
    "C03": ["ConsA"],
    "C04": ["ConsC", "ConsL"],
    "C37": ["ChanS", "ChanG", "ChanA"],
}
THOROUGH = {
    "C01": ["ThrA", "ThrB", "ThrC", "ThrL", "ThrD", "FrqA", "FrqB"],
    "C02": ["FrqA", "FrqB", "FrqC", "FrqD", "ThrA"],
    "C03": ["ConsA", "ConsB", "ThrD"],
    "C04": ["ConsC", "ConsL", "ConsB"],
    "C37": ["ChanS", "ChanG", "ChanA", "ChanB", "ThrD", "ConsA"],
}


class ClockCtl(sm.SM):
    module = "ClockCtl"
    mc_module = "MC_ClockCtl"
    crate = CRATE
    test = TEST

    def configs(self, prop, tier):
        return (QUICK if tier == "quick" else THOROUGH)[prop]

    def harness_cfg(self, cfgname, init_state):
        return CFGS[cfgname]

    def act_sig(self, a):
        t = a["t"]
        if t == "Meas":
            return "Meas(%d,off=%d,leap=%s,wide=%s)" % (a["i"], a["off"], a["leap"], a["wide"])
        if t == "Usable":
            return "Usable(%d,%s)" % (a["i"], a["b"])
        if "i" in a:
            return "%s(%d)" % (t, a["i"])
        return t

    def attribute(self, out, prop, cfgname, rec, fail, acts, how):
        # signature: configuration, kind of step (cone key), differing observables of this property's cone
        fields = set(fail["fields"])
        cones = rec["cones"]
        if rec.get("ck") == "Recv_M" and fields & {"cons", "used"} and not fail.get("panic"):
            # the consensus decision itself differs: steering, frequency, leap and accounting differences are consequences
            fields &= set(cones.get("C03", [])) | set(cones.get("C37", []))
        hit = [p for p, c in cones.items() if fields & set(c)]
        sig = "ClockCtl:%s:%s:%s" % (cfgname, rec.get("ck", self.act_sig(rec["act"])), ",".join(sorted(fields & set(cones.get(prop, [])))))
        detail = {"how": how, "cfg": cfgname, "constants": CFGS.get(cfgname), "history": acts, "pre": rec.get("pre"),
                  "expected": {"post": rec["post"], "out": rec["out"]}, "observed": fail.get("observed"), "panic": fail.get("panic"),
                  "differing": sorted(fields), "attributed_to": sorted(hit)}
        if prop in hit:
            out.violation(sig, detail)
        else:
            out.divergences.append(detail)
            out.notes.append("divergence outside %s's cone (ClockCtl/%s, fields %s, attributed to %s)" % (prop, cfgname, sorted(fields), sorted(hit)))


def fast_tours(g, init_state, want, max_len, rng):
    """Transition tour (walks from the initial state covering every edge index in `want`): like vf.Graph.tours but
    with one BFS tree from the initial state for the prefixes and depth-bounded local searches, so that it stays
    fast on graphs with 10^5 edges."""
    import collections
    start = g.ids.get(vf.key(init_state))
    if start is None:
        raise vf.ToolError("initial state not in the graph")
    parent = {start: None}
    order = [start]
    q = collections.deque([start])
    while q:
        u = q.popleft()
        for ei in g.out.get(u, ()):
            v = g.edges[ei][1]
            if v not in parent:
                parent[v] = (u, ei)
                order.append(v)
                q.append(v)
    unc = collections.defaultdict(list)
    for ei in want:          # callers pass `want` in a canonical order
        unc[g.edges[ei][0]].append(ei)
    for l in unc.values():
        rng.shuffle(l)
    remaining = sum(len(v) for v in unc.values())
    pos = 0   # pointer into BFS order: states before it have no uncovered out-edges
    walks = []

    def prefix(v):
        p = []
        while parent[v] is not None:
            u, ei = parent[v]
            p.append(ei)
            v = u
        p.reverse()
        return p

    def near(src, budget):
        seen = {src: None}
        q = collections.deque([(src, 0)])
        n = 0
        while q:
            u, d = q.popleft()
            if d >= min(budget, 14):
                continue
            for ei in g.out.get(u, ()):
                v = g.edges[ei][1]
                if v in seen:
                    continue
                seen[v] = (u, ei)
                n += 1
                if unc.get(v):
                    p = []
                    while seen[v] is not None:
                        u2, e2 = seen[v]
                        p.append(e2)
                        v = u2
                    p.reverse()
                    return p
                if n > 20000:
                    return None
                q.append((v, d + 1))
        return None

    while remaining:
        while pos < len(order) and not unc.get(order[pos]):
            pos += 1
        if pos >= len(order):
            break
        cur = order[pos]
        walk = prefix(cur)
        while True:
            l = unc.get(cur)
            if l:
                ei = l.pop()
                remaining -= 1
                walk.append(ei)
                cur = g.edges[ei][1]
                if len(walk) >= max_len:
                    break
                continue
            if len(walk) >= max_len:
                break
            p = near(cur, max_len - len(walk) - 1)
            if not p:
                break
            walk.extend(p)
            cur = g.edges[p[-1]][1]
        walks.append(walk)
    return walks


def replay_cfg(out, prop, tier, seed, cfgname, max_len=120):
    """(M)+(G) for one bounded configuration of MC_ClockCtl (as sm.SM.model_and_replay, with fast_tours)."""
    import time
    c = ClockCtl()
    wd = vf.workdir("ClockCtl_%s" % cfgname)
    t0 = time.time()
    g, mc, inits = vf.collect_graph("MC_ClockCtl", "Gen_ClockCtl_%s.cfg" % cfgname, workers=8, timeout=1500)
    if mc.violated:
        raise vf.ToolError("model ClockCtl/%s violates %s at design level:\n%s" % (cfgname, mc.violated, mc.error_trace[:3000]))
    if not inits:
        raise vf.ToolError("generator printed no INIT state")
    out.add("states", mc.distinct)
    out.add("transitions", len(g.edges))
    t1 = time.time()
    want = set(i for i, e in enumerate(g.edges) if e[2]["cones"].get(prop))
    if not want:
        raise vf.ToolError("vacuous: no transition of ClockCtl/%s is constrained by %s" % (cfgname, prop))
    # canonical edge order (TLC workers print in any order) so that the tour depends on the seed only
    rank = {i: k for k, i in enumerate(sorted(want, key=lambda i: vf.key([g.edges[i][2]["pre"], g.edges[i][2]["act"]])))}
    for u in list(g.out):
        g.out[u].sort(key=lambda i: vf.key(g.edges[i][2]["act"]))
    rng = random.Random(seed)
    walks = fast_tours(g, inits[0], sorted(want, key=lambda i: rank[i]), max_len, rng)
    t2 = time.time()
    wf = os.path.join(wd, "walks_%s.ndjson" % prop)
    rf = os.path.join(wd, "results_%s.ndjson" % prop)
    vf.write_ndjson(wf, [{"id": n, "walk": [{"act": g.edges[e][2]["act"], "post": g.edges[e][2]["post"], "out": g.edges[e][2]["out"]} for e in w]}
                         for n, w in enumerate(walks)])
    vf.run_harness(CRATE, TEST, {"mode": "replay", "cfg": CFGS[cfgname], "input": wf, "output": rf, "seed": seed}, timeout=1500)
    results = vf.read_ndjson(rf)
    t3 = time.time()
    if len(results) != len(walks):
        raise vf.ToolError("harness returned %d results for %d walks" % (len(results), len(walks)))
    steps = 0
    covered = set()
    for r in results:
        w = walks[r["id"]]
        steps += r["steps_run"]
        upto = r["steps_run"] if r["fail"] is None else r["fail"]["step"]
        covered.update(w[:upto])
        if r["fail"] is not None:
            f = r["fail"]
            rec = g.edges[w[f["step"]]][2]
            c.attribute(out, prop, cfgname, rec, f, [g.edges[x][2]["act"] for x in w[:f["step"] + 1]], "replay")
    out.add("replayed_steps", steps)
    out.add("replayed_walks", len(walks))
    out.add("model_transitions_constrained_by_property", len(want))
    out.add("model_transitions_confirmed_on_impl", len(covered & want))
    vf.log("ClockCtl/%s: %d states %d edges; tlc %.0fs tour %.0fs (%d walks) replay %.0fs" % (
        cfgname, mc.distinct, len(g.edges), t1 - t0, t2 - t1, len(walks), t3 - t2))
    best = max(range(len(walks)), key=lambda k: sum(1 for e in walks[k] if g.edges[e][2]["out"]["steps"] or g.edges[e][2]["out"]["exit"]))
    w = walks[best][:12]
    out.sample({"cfg": cfgname, "walk_prefix": [c.act_sig(g.edges[e][2]["act"]) for e in w],
                "expected_out_of_last": g.edges[w[-1]][2]["out"]})


def ctl_model(out, prop, tier, seed):
    for cfg in (QUICK if tier == "quick" else THOROUGH)[prop]:
        replay_cfg(out, prop, tier, seed, cfg)
    if tier == "thorough":
        sim_replay(out, prop, tier, seed)


# ------------------------------------------------------------------------------------------------
# CtlLoop (spec/CtlLoop.tla): the wrapper's message loop in fine-grained steps - source-task operations interleaved with the
# walk of a steering broadcast over the source handles (a wrapper dropped while the loop holds its handle, ...), replayed
# on the real TimeSyncControllerWrapper<recording mock> whose run() executes on its own thread
# ------------------------------------------------------------------------------------------------
LOOP_CFGS = {   # constants of spec/{MC,Gen}_CtlLoop_<name>.cfg that the harness needs
    "Mix":    dict(N=2, OneWay=[1]),     # one-way + two-way source, 1 measurement each, usable TRUE/FALSE, timer updates, <=2 queued
    "Two":    dict(N=2, OneWay=[]),      # two two-way sources (one handle list), 2 measurements each, <=2 queued
    "TwoBig": dict(N=2, OneWay=[]),      # ... with set_usable
    "MixBig": dict(N=2, OneWay=[1]),     # Mix with 2 measurements each, <=3 queued
    "Three":  dict(N=3, OneWay=[1]),     # one one-way and two two-way sources
}
LOOP_QUICK = ["Mix", "Two"]
LOOP_THOROUGH = ["Mix", "Two", "TwoBig", "MixBig", "Three"]


class CtlLoop(sm.SM):
    module = "CtlLoop"
    mc_module = "MC_CtlLoop"
    crate = CRATE
    test = "algorithm::verif_hook::ctlloop::verif_ctlloop"

    def configs(self, prop, tier):
        return LOOP_QUICK if tier == "quick" else LOOP_THOROUGH

    def harness_cfg(self, cfgname, init_state):
        return LOOP_CFGS[cfgname]

    def act_sig(self, a):
        t = a["t"]
        if t == "Usable":
            return "Usable(%d,%s)" % (a["i"], a["b"])
        if t == "Recv":
            return "Recv(steer=%s,arm=%s)" % (a["steer"], a["arm"])
        if "i" in a:
            return "%s(%d)" % (t, a["i"])
        return t

    def attribute(self, out, prop, cfgname, rec, fail, acts, how):
        if fail.get("tool"):
            # the harness could not complete the step (a wait for the loop thread timed out): never a violation
            raise vf.ToolError("CtlLoop/%s: harness could not run step %s of %s: %s" % (
                cfgname, fail.get("step"), [self.act_sig(a) for a in acts][-8:], fail["tool"]))
        fields = set(fail["fields"])
        cones = rec["cones"]
        hit = [p for p, c in cones.items() if fields & set(c)]
        held = "+held" if rec.get("held") else ""
        sig = "CtlLoop:%s:%s%s:%s" % (cfgname, rec.get("ck", rec["act"]["t"]), held, ",".join(sorted(fields & set(cones.get(prop, [])))))
        detail = {"how": how, "cfg": cfgname, "constants": LOOP_CFGS.get(cfgname), "history": [self.act_sig(a) for a in acts],
                  "pre": rec.get("pre"), "expected": {"post": rec["post"], "out": rec["out"]}, "observed": fail.get("observed"),
                  "panic": fail.get("panic"), "differing": sorted(fields), "attributed_to": sorted(hit)}
        if prop in hit:
            out.violation(sig, detail)
        else:
            out.divergences.append(detail)
            out.notes.append("divergence outside %s's cone (CtlLoop/%s, fields %s)" % (prop, cfgname, sorted(fields)))


def loop_stage(out, prop, tier, seed):
    """(M)+(G) for the bounded configurations of MC_CtlLoop; counts what the fine-grained model adds over ClockCtl."""
    c = CtlLoop()
    for cfgname in c.configs(prop, tier):
        import time
        wd = vf.workdir("CtlLoop_%s" % cfgname)
        t0 = time.time()
        g, mc, inits = vf.collect_graph("MC_CtlLoop", "Gen_CtlLoop_%s.cfg" % cfgname, workers=8, timeout=1500)
        t1 = time.time()
        if mc.violated:
            raise vf.ToolError("model CtlLoop/%s violates %s at design level:\n%s" % (cfgname, mc.violated, mc.error_trace[:3000]))
        if not inits:
            raise vf.ToolError("generator printed no INIT state")
        want = set(i for i, e in enumerate(g.edges) if e[2]["cones"].get(prop))
        # vacuity: the situations this stage exists for must be in the model
        held = [i for i in want if g.edges[i][2].get("held")]
        mid = [i for i in want if g.edges[i][2]["pre"]["pc"] != "idle" and g.edges[i][2]["act"]["t"] in ("Meas", "Usable", "Drop", "Add")]
        timer = [i for i in want if g.edges[i][2]["out"]["tu"]]
        if not held or not mid or (LOOP_TIMER[cfgname] and not timer):
            raise vf.ToolError("vacuous: CtlLoop/%s has %d drops of a held handle, %d source operations during a broadcast, %d timer updates"
                               % (cfgname, len(held), len(mid), len(timer)))
        rank = {i: k for k, i in enumerate(sorted(want, key=lambda i: vf.key([g.edges[i][2]["pre"], g.edges[i][2]["act"]])))}
        for u in list(g.out):
            g.out[u].sort(key=lambda i: vf.key(g.edges[i][2]["act"]))
        walks = fast_tours(g, inits[0], sorted(want, key=lambda i: rank[i]), 80, random.Random(seed))
        wf = os.path.join(wd, "walks_%s.ndjson" % prop)
        rf = os.path.join(wd, "results_%s.ndjson" % prop)
        vf.write_ndjson(wf, [{"id": n, "walk": [{"act": g.edges[e][2]["act"], "post": g.edges[e][2]["post"], "out": g.edges[e][2]["out"]} for e in w]}
                             for n, w in enumerate(walks)])
        t2 = time.time()
        vf.run_harness(CRATE, c.test, {"mode": "replay", "cfg": LOOP_CFGS[cfgname], "input": wf, "output": rf, "seed": seed}, timeout=3000)
        t3 = time.time()
        results = vf.read_ndjson(rf)
        if len(results) != len(walks):
            raise vf.ToolError("harness returned %d results for %d walks" % (len(results), len(walks)))
        steps, covered = 0, set()
        for r in results:
            w = walks[r["id"]]
            steps += r["steps_run"]
            upto = r["steps_run"] if r["fail"] is None else r["fail"]["step"]
            covered.update(w[:upto])
            if r["fail"] is not None:
                f = r["fail"]
                c.attribute(out, prop, cfgname, g.edges[w[f["step"]]][2], f, [g.edges[x][2]["act"] for x in w[:f["step"] + 1]], "replay")
        out.add("states", mc.distinct)
        out.add("transitions", len(g.edges))
        out.add("replayed_steps", steps)
        out.add("replayed_walks", len(walks))
        out.add("model_transitions_constrained_by_property", len(want))
        out.add("model_transitions_confirmed_on_impl", len(covered & want))
        out.add("loop_drops_of_a_handle_held_by_the_loop_confirmed", len(covered & set(held)))
        out.add("loop_source_operations_during_a_broadcast_confirmed", len(covered & set(mid)))
        out.add("loop_timer_updates_confirmed", len(covered & set(timer)))
        vf.log("CtlLoop/%s: %d states %d edges; tlc %.0fs tour %.0fs (%d walks) replay %.0fs (%d steps); %d/%d drops of a held handle confirmed" % (
            cfgname, mc.distinct, len(g.edges), t1 - t0, t2 - t1, len(walks), t3 - t2, steps, len(covered & set(held)), len(held)))
        hw = [k for k in range(len(walks)) if set(walks[k]) & set(held)]
        if hw:
            w = walks[hw[0]]
            cut = next(n for n, e in enumerate(w) if e in set(held)) + 1
            out.sample({"cfg": "CtlLoop/" + cfgname, "walk_prefix": [c.act_sig(g.edges[e][2]["act"]) for e in w[:cut]][-10:],
                        "expected_channel_after_last": g.edges[w[cut - 1]][2]["post"]["chan"]})
    if tier == "thorough":
        loop_fine_model(out)


def loop_fine_model(out):
    """(M) only: MC_CtlLoopFine splits 'release the handle / upgrade the next one' into two steps with source-task operations in
    between (not reproducible on the real loop); the same step property and invariant must hold there."""
    for cfg in ("Mix", "Three"):
        res = vf.run_tlc("MC_CtlLoopFine", "MC_CtlLoopFine_%s.cfg" % cfg, workers=8, timeout=3000, coverage=False, tags=())
        if res.violated:
            raise vf.ToolError("model CtlLoopFine/%s violates %s at design level:\n%s" % (cfg, res.violated, res.error_trace[:3000]))
        out.add("states", res.distinct)
        out.add("transitions", res.generated)
        out.add("loop_finer_model_states_checked", res.distinct)


LOOP_TIMER = {"Mix": True, "Two": False, "TwoBig": False, "MixBig": True, "Three": False}


# ------------------------------------------------------------------------------------------------
# beyond the exhaustive bound: TLC -simulate on a wider configuration (spec/Sim_ClockCtl.tla), every simulated
# behaviour replayed on the real wrapper
# ------------------------------------------------------------------------------------------------
SIM_CFG = _c(N=3, MinAgree=2, StepThresh=0, SBwd2=12, Fwd2=8, Bwd2=8, Acc2=20, MaxSamples=2, Ghosts=True, Readd=True,
             OffPos=[0, 1, 2, 3, 5], OffNeg=[1, 2, 4], LeapVals=["none", "59", "61", "unknown"], Wides=[False, True],
             MaxChan=4, Bound=12, UsableVals=[True, False])


def sim_replay(out, prop, tier, seed):
    num, depth = (150, 60) if tier == "quick" else (3000, 80)
    wd = vf.workdir("ClockCtl_sim")
    cf = os.path.join(wd, "Sim_ClockCtl_%s.cfg" % prop)
    with open(cf, "w") as f:
        f.write("CONSTANTS\n" + "".join("  %s = %s\n" % (k, _tla(v)) for k, v in SIM_CFG.items()))
        f.write("INIT SimInit\nNEXT SimNext\nCHECK_DEADLOCK FALSE\nINVARIANTS SimPrint\n")
    # the cone table does not depend on the constants' values
    table = {}
    walks, cur = [], None

    init = []

    def sink(tag, obj):
        # TLC checks the "invariant" on the initial state once, then on every state it moves into; a new behaviour
        # starts where a step does not continue from the previous one
        nonlocal cur
        if tag == "SINIT":
            init.append(vf.key(obj))
        elif tag == "STEP":
            if cur is None or not cur or vf.key(cur[-1]["post"]) != vf.key(obj["pre"]):
                if init and vf.key(obj["pre"]) != init[0]:
                    cur = None      # (cannot happen: every behaviour starts in the initial state)
                    return
                cur = []
                walks.append(cur)
            cur.append(obj)
    res = vf.run_tlc("Sim_ClockCtl", cf, workers=1, sim=(num, depth), seed=seed, timeout=1500, tags=("SINIT", "STEP"), line_sink=sink,
                     coverage=False, name="Sim_ClockCtl")
    walks = [w for w in walks if w]
    if not walks:
        raise vf.ToolError("simulation produced no behaviour")
    # cone table: printed by the generator of any bounded configuration
    g, _, _ = vf.collect_graph("MC_ClockCtl", "Gen_ClockCtl_ChanG.cfg", workers=8, timeout=600)
    cones_by_ck = {}
    for (_, _, rec) in g.edges:
        cones_by_ck.setdefault(rec["ck"], rec["cones"])
    wf = os.path.join(wd, "walks_%s.ndjson" % prop)
    rf = os.path.join(wd, "results_%s.ndjson" % prop)
    vf.write_ndjson(wf, [{"id": n, "walk": [{"act": e["act"], "post": e["post"], "out": e["out"]} for e in w]} for n, w in enumerate(walks)])
    vf.run_harness(CRATE, TEST, {"mode": "replay", "cfg": SIM_CFG, "input": wf, "output": rf, "seed": seed}, timeout=3000)
    results = vf.read_ndjson(rf)
    c = ClockCtl()
    steps = 0
    for r in results:
        steps += r["steps_run"]
        if r["fail"] is not None:
            f = r["fail"]
            e = walks[r["id"]][f["step"]]
            rec = dict(e)
            rec["cones"] = cones_by_ck.get(e["ck"], {})
            c.attribute(out, prop, "Sim", rec, f, [x["act"] for x in walks[r["id"]][:f["step"] + 1]], "replay")
    out.add("simulated_behaviours_replayed", len(walks))
    out.add("simulated_steps_replayed", steps)


# ------------------------------------------------------------------------------------------------
# C06 (exploration): TLC enumerates history shapes, the harness replays them and logs number classes, TLC evaluates
# the property on the log
# ------------------------------------------------------------------------------------------------
def filter_shapes(out, prop, tier, seed):
    shapes = []
    # the adversarial alphabet, and the quiet one: constant delays with no or tiny offset jitter (low-noise links)
    for cfg in ["quick" if tier == "quick" else "big", "const"]:
        res = vf.run_tlc("FilterShapes", "Gen_FilterShapes_%s.cfg" % cfg, workers=8, timeout=1500, tags=("EDGE",),
                         line_sink=lambda tag, obj: shapes.append(obj), coverage=False)
    if not shapes:
        raise vf.ToolError("FilterShapes enumerated nothing")
    shapes.sort(key=vf.key)
    wd = vf.workdir("FilterShapes")
    inp = os.path.join(wd, "shapes.ndjson")
    outp = os.path.join(wd, "results.ndjson")
    vf.write_ndjson(inp, shapes)
    vf.run_harness(CRATE, TEST, {"mode": "filter", "input": inp, "output": outp, "seed": seed}, timeout=1500)
    results = vf.read_ndjson(outp)
    if len(results) != len(shapes):
        raise vf.ToolError("harness returned %d results for %d shapes" % (len(results), len(shapes)))
    # the property is evaluated by TLC on the logged classes (chunks keep TLC's JSON reader fast)
    mism, consumed = [], 0
    CH = 20000
    for c0 in range(0, len(results), CH):
        chunk = os.path.join(wd, "results_%d.ndjson" % (c0 // CH))
        vf.write_ndjson(chunk, [{"id": r["id"], "cls": r["cls"], "nanpanic": r["nanpanic"]} for r in results[c0:c0 + CH]])
        done = []

        def sink(tag, obj):
            (mism if tag == "MISMATCH" else done).append(obj)
        vf.run_tlc("FilterShapes", "Trace_FilterShapes.cfg", workers=1, timeout=1500, env={"TRACE": chunk}, tags=("MISMATCH", "DONE"),
                   line_sink=sink, coverage=False, xmx="4g", name="Trace_FilterShapes")
        if not done:
            raise vf.ToolError("trace evaluation of FilterShapes did not finish")
        consumed += done[-1]["consumed"]
    if consumed != len(results):
        raise vf.ToolError("TLC evaluated %d of %d records" % (consumed, len(results)))
    for m in mism:
        sh = shapes[m["id"]]
        bad = sorted(k for k, v in m["cls"].items() if v != "ok")
        sig = "FilterShapes:%s%s" % (",".join("%s=%s" % (k, m["cls"][k]) for k in bad), ":nanpanic" if m["nanpanic"] else "")
        if not bad:
            # every logged value was finite up to the step at which a report (observe) hit a non-finite number: name the history
            item = lambda x: "/".join(str(x[k]) for k in ("off", "delay", "gap", "disp") if k in x)
            sig = "FilterShapes:non-finite estimate reported:%sx%d;%s" % (item(sh["base"]), sh.get("reps", 1), ",".join(item(t) for t in sh.get("tail", [])))
            offs = [sh["base"]["off"]] + [t["off"] for t in sh.get("tail", [])]
            if sh["base"]["delay"] == "zero" and any(o in ("maxpos", "maxneg") for o in offs):
                # one family (finding F-18): zero-delay start-up samples and offsets of magnitude 2^31 s
                sig = "FilterShapes:non-finite estimate reported:zero-delay start-up samples and offsets of magnitude 2^31 s"
        out.violation(sig, {"how": "replay", "shape": sh, "classes": m["cls"], "nanpanic": m["nanpanic"],
                            "panics": results[m["id"]]["panics"], "differing": bad})
    other = [(r["id"], r["panics"]) for r in results if r["panics"] and not r["nanpanic"]]
    for i, p in other[:5]:
        out.notes.append("panic unrelated to NaN/inf (not a C06 matter) on shape %s: %s" % (json.dumps(shapes[i])[:300], p[:1]))
    nontrivial = set()
    for sh, r in zip(shapes, results):
        if r["stable"] and r["clock_calls"] > 0 and not r["panics"]:
            nontrivial.add(vf.key(sh))
    out.add("evaluations", len(shapes))
    out.coverage["distinct_nontrivial"] = len(nontrivial)
    out.add("shapes_with_other_panics", len(other))
    nd = [r["id"] for r in results if r.get("disp_nan_after_step")]
    out.add("shapes_with_nan_root_dispersion_at_negative_elapsed_time", len(nd))
    if nd:
        out.notes.append("observation (outside C06 as stated): TimeSnapshot::root_dispersion(now) is NaN when `now` lies far before the "
                         "snapshot's base time, i.e. right after a backward step of years; first shape %s" % json.dumps(shapes[nd[0]])[:300])
    out.add("shapes_reaching_kalman_phase", sum(1 for r in results if r["stable"]))
    if len(nontrivial) < 2:
        raise vf.ToolError("vacuous: only %d shapes reached the Kalman phase and steered the clock" % len(nontrivial))
    out.sample({"shape": shapes[len(shapes) // 2], "classes": results[len(shapes) // 2]["cls"]})


def apalache_leap_lemma(out):
    """C04 for unbounded vote counts: Apalache discharges the inductive invariant of spec/apalache/LeapVoteInd.tla
    (initiation at length 0, consecution at length 1)."""
    import subprocess
    wd = vf.workdir("apalache_leap")
    for args in (["--init=Init", "--inv=IndInv", "--length=0"], ["--init=IndInit", "--inv=IndInv", "--length=1"]):
        cmd = ["apalache-mc", "check", "--out-dir=" + wd] + args + ["LeapVoteInd.tla"]
        try:
            p = subprocess.run(cmd, cwd=os.path.join(vf.SPEC, "apalache"), stdout=subprocess.PIPE, stderr=subprocess.STDOUT, text=True, timeout=1200)
        except subprocess.TimeoutExpired:
            raise vf.ToolError("apalache timed out on LeapVoteInd (%s)" % " ".join(args))
        if "EXITCODE: OK" not in p.stdout:
            raise vf.ToolError("apalache did not discharge LeapVoteInd %s:\n%s" % (" ".join(args), p.stdout[-1500:]))
        out.add("apalache_inductive_obligations_discharged", 1)


# ------------------------------------------------------------------------------------------------
def run(prop, tier, seed):
    out = vf.Outcome(prop, tier, seed, MANIFEST[prop]["level"])
    out.assumptions += ["code observed as compiled for tests (debug assertions, overflow checks, panic instead of process::exit)"]
    if prop == "C03":
        out.coverage["rule"] = ("every candidate list of the bounded enumeration (all orders, all tie/touching cases) is evaluated by the "
                                "specification's Select and by the real select(); results must be identical")
        select_pure(out, prop, tier, seed)
        ctl_model(out, prop, tier, seed)
        out.coverage.setdefault("traces_validated_against_impl", 0)
    elif prop == "C04":
        out.coverage["rule"] = ("every multiset of leap indicators of the bounded enumeration is voted on by the specification and, in "
                                "three orders, by the real combine(); results must be identical")
        leap_pure(out, prop, tier, seed)
        if tier == "thorough":
            apalache_leap_lemma(out)
        ctl_model(out, prop, tier, seed)
        out.coverage.setdefault("traces_validated_against_impl", 0)
    elif prop in ("C01", "C02", "C37"):
        out.coverage["rule"] = ("every transition of the bounded ClockCtl model whose cone for this property is non-empty is covered by a "
                                "transition tour replayed through the real TimeSyncControllerWrapper / KalmanClockController / source "
                                "controllers with a recording clock; state projection and clock calls compared after every step")
        ctl_model(out, prop, tier, seed)
        if prop == "C37":
            out.coverage["rule"] += ("; every transition of the bounded CtlLoop model (fine-grained message loop: source-task operations "
                                     "while the loop is inside handle_message of a source during a broadcast) is covered by a transition "
                                     "tour replayed on the real wrapper / source wrappers with run() on its own thread; channel, controller "
                                     "calls and controller state compared after every step")
            out.assumptions += ["CtlLoop stage: inner controller mocked (contract of KalmanClockController); timer update due as soon as the loop is idle"]
            loop_stage(out, prop, tier, seed)
        out.coverage.setdefault("traces_validated_against_impl", 0)
    elif prop == "C06":
        out.coverage["rule"] = ("TLC enumerates measurement-history shapes over adversarial value classes (8 initial samples of a base "
                                "class, then every tail of <=2 classes); each is replayed on the real source and clock controllers with "
                                "steering fed back; every observable number must be finite and every uncertainty non-negative")
        filter_shapes(out, prop, tier, seed)
    else:
        raise vf.ToolError("not implemented: %s" % prop)
    return out


PROPS = ["C01", "C02", "C03", "C04", "C37", "C06"]

_T = ("TLA+ specification (spec/ClockSel.tla, spec/ClockCtl.tla) model-checked with TLC; every enumerated case / explored transition "
      "replayed on the real code (select(), combine(), TimeSyncControllerWrapper<KalmanClockController<mock clock>>)")
MANIFEST = {
    "C03": dict(level="model_checking", technique=_T, design_ref="6.3, 7 (Clock controller group)", engine="tlc+replay",
                text="Selection transcribed as Select; declarative majority/minimum condition checked by TLC on every candidate list "
                     "(<=4 sources, all orders, ties, periodic/unsynchronised/too-wide flags); each case replayed on the real select() "
                     "with exactly representable floats.",
                note="bounded: <=4 candidates, small integer interval ends; the numeric Kalman filter is not modelled"),
    "C01": dict(level="model_checking", technique=_T, design_ref="6.3, 5.2, 5.5, 7 (Clock controller group)", engine="tlc+replay",
                text="Steer decision Step|Slew|Freq|Nothing|Exit of ClockCtl with start-up / single-step / accumulated thresholds (finite, "
                     "infinite, asymmetric, one 2^-32 s unit above or below a whole second); every model transition replayed through the real "
                     "wrapper with fresh sources whose first estimate equals the measured whole-second offset; step_clock arguments, the "
                     "Threshold exceeded exit, accumulated_steps and in_startup compared exactly.",
                note="bounded: 1-2 source slots, offsets of a few whole seconds, <=2 queued messages; steps are whole seconds (sub-second "
                     "values are not exactly controllable through the f64 filter); exit observed as the cfg(test) panic"),
    "C02": dict(level="model_checking", technique=_T, design_ref="6.3, 7 (Clock controller group)", engine="tlc+replay",
                text="Frequency tracked in ppm with the clamp of steer_frequency for initial kernel frequencies 0, 0.9 max, -2 max and slew "
                     "maxima below and above the steer maximum; every set_frequency argument compared (rounded ppm) and checked exactly "
                     "against the configured bound, desired_freq against the slew maximum.",
                note="single-source configurations (frequency estimate of an initial-phase source is 0); second-order term of "
                     "(1+f)(1+c)-1 below the rounding of the comparison"),
    "C37": dict(level="model_checking", design_ref="6.3, 7 (C37)", engine="tlc+replay",
                technique=_T + "; plus spec/CtlLoop.tla: the wrapper's message loop in fine-grained steps (resting points: select! and "
                          "inside handle_message of each source handle visited by a steering broadcast), model-checked with TLC and replayed "
                          "on the real TimeSyncControllerWrapper<recording mock controller> and the real source wrappers with run() "
                          "executing on a thread of its own, gated inside every handle_message",
                text="(1) ClockCtl: all interleavings of source-task operations (measure, set_usable, drop, re-add) with single iterations "
                     "of the wrapper's message loop over an explicit channel; replayed on the real run() future polled once per delivered "
                     "message; controller's source map, usable flags, snapshots, used sources and clock calls compared after every step; "
                     "forged data for removed ids. (2) CtlLoop: the same operations interleaved with the STEPS of one iteration - while the loop "
                     "is inside handle_message of a source during the broadcast of a measurement or timer update, sources are dropped (also "
                     "the one whose upgraded handle the loop holds), measure, report usability, are added; every drop enqueues exactly one "
                     "removal notice in every loop phase, as the last message of its handle; removal unregisters; measurements reach the "
                     "controller in the order produced; the usable flag is the last one reported; at rest registered = held; channel, "
                     "controller calls and controller state compared after every step.",
                note="bounded: ClockCtl 2 (thorough 3) source slots, <=2 (3) queued messages, the harness relays messages one at a time "
                     "between the sources' channel and the loop's channel; CtlLoop 2 (thorough 3) slots of both kinds, <=2 measurements per "
                     "handle, <=2 (3) queued messages, inner controller mocked with the contract of KalmanClockController (the real one is "
                     "covered by ClockCtl), a requested timer update fires as soon as the loop is idle, the window between releasing "
                     "one handle and upgrading the next is not interruptible by the harness (operations there are equivalent to "
                     "operations just before the release)"),
    "C06": dict(level="exploration", technique="TLA+ module spec/FilterShapes.tla: TLC enumerates adversarial measurement-history shapes over "
                "value classes and evaluates the finiteness / non-negativity predicate on the number classes logged by the harness, which "
                "replays every shape on the real KalmanSourceController + KalmanClockController with steering fed back",
                design_ref="5.4, 7 (C06), 8", engine="tlc+replay",
                text="Every history shape (base class x 8 samples, tails of <=2 classes x repetitions; offsets 0..+-2^31 s, delays negative..2^31 s, "
                     "spacing 1 ms..2^17 s, root dispersion 0/max) leaves all estimates, observe() fields, clock-call arguments and published "
                     "snapshot coefficients finite and all uncertainties non-negative; NaN caught by the code's own debug assertions counts.",
                note="exploration only: the floating-point filter is not modelled, the oracle is finiteness/sign; one source; "
                     "histories of 8+<=6 measurements; other panics (integer overflow at saturated values) are reported as notes"),
    "C04": dict(level="model_checking", technique=_T, design_ref="6.3, 7 (Clock controller group)", engine="tlc+replay",
                text="Leap vote transcribed as VoteLeap; strict-majority-of-known condition checked by TLC on all multisets of <=6 "
                     "indicators; each replayed in three orders on the real combine().",
                note="bounded: <=6 (thorough 12) selected sources"),
}




if __name__ == "__main__":
    import sys
    if "--gen" in sys.argv:
        gen_cfgs()
