"""Checks decided with spec/ClockSel.tla (pure decision functions) and spec/ClockCtl.tla (controller, wrapper loop):
C01 C02 C03 C04 C37 (model_checking) and C06 (exploration, spec/FilterShapes.tla)."""
import os, json, random
import vf, sm

CRATE = "ntp_proto"
TEST = "algorithm::kalman::verif_hook::verif_kalman"


# ------------------------------------------------------------------------------------------------
# pure-function enumerations (ClockSel): TLC enumerates + checks the declarative property, the harness
# evaluates the real function on every case, python compares
# ------------------------------------------------------------------------------------------------
def pure_cases(out, cfg, what):
    cases = []
    res = vf.run_tlc("MC_ClockSel", "Gen_ClockSel_%s.cfg" % cfg, workers=8, timeout=1500, tags=("EDGE",),
                     line_sink=lambda tag, obj: cases.append(obj), coverage=False)
    if res.violated:
        raise vf.ToolError("model MC_ClockSel/%s violates %s at design level:\n%s" % (cfg, res.violated, res.error_trace[:3000]))
    if not cases:
        raise vf.ToolError("vacuous: MC_ClockSel/%s enumerated no case" % cfg)
    # canonical order (TLC workers print in any order): determinism for a given seed
    cases.sort(key=vf.key)
    out.add("states", res.distinct)
    out.add("transitions", len(cases))
    return cases


def run_pure(out, prop, cfg, mode, seed):
    cases = pure_cases(out, cfg, mode)
    wd = vf.workdir("ClockSel_%s" % cfg)
    inp = os.path.join(wd, "cases_%s.ndjson" % prop)
    outp = os.path.join(wd, "results_%s.ndjson" % prop)
    vf.write_ndjson(inp, cases)
    vf.run_harness(CRATE, TEST, {"mode": mode, "input": inp, "output": outp, "seed": seed})
    results = vf.read_ndjson(outp)
    if len(results) != len(cases):
        raise vf.ToolError("harness returned %d results for %d cases" % (len(results), len(cases)))
    return cases, results


def cand_sig(c):
    return "%d-%d%s" % (c["lo"], c["hi"], {"ok": "", "periodic": "p", "unsync": "u"}[c["kind"]])


def select_pure(out, prop, tier, seed):
    cfg = "select" if tier == "quick" else "selectbig"
    cases, results = run_pure(out, prop, cfg, "select", seed)
    nonempty = 0
    ties = 0
    for case, r in zip(cases, results):
        exp = case["sel"]
        if exp:
            nonempty += 1
        ends = [c["lo"] for c in case["c"]] + [c["hi"] for c in case["c"]]
        if len(set(ends)) < len(ends):
            ties += 1
        if r.get("panic") is not None or r["sel"] != exp:
            sig = "Select:m=%d,w=%d:[%s]" % (case["m"], case["w"], " ".join(cand_sig(c) for c in case["c"]))
            out.violation(sig, {"how": "replay", "case": case, "expected_selection": exp, "observed": r.get("sel"),
                                "panic": r.get("panic"), "differing": ["out.sel"]})
    if nonempty < 2 or ties < 2:
        raise vf.ToolError("vacuous select enumeration (%d non-empty selections, %d tie cases)" % (nonempty, ties))
    out.add("model_transitions_constrained_by_property", len(cases))
    out.add("model_transitions_confirmed_on_impl", len(cases))
    out.add("select_cases_with_nonempty_selection", nonempty)
    out.add("select_cases_with_equal_ends", ties)
    pick = [c for c in cases if len(c["sel"]) >= 2][:1] + [c for c in cases if c["c"] and not c["sel"]][:1]
    for c in pick:
        out.sample({"select_case": c})


def leap_pure(out, prop, tier, seed):
    cfg = "leap" if tier == "quick" else "leapbig"
    cases, results = run_pure(out, prop, cfg, "leap", seed)
    kinds = set()
    for case, r in zip(cases, results):
        exp = case["vote"]
        kinds.add(exp)
        for order, v in enumerate(r["votes"]):
            if not case["l"]:
                ok = v["vote"] == "keep" and not v.get("combined", True)
            else:
                ok = v["vote"] == exp and v.get("used") == len(case["l"])
            if not ok:
                cnt = {x: case["l"].count(x) for x in ("none", "59", "61", "unknown")}
                sig = "VoteLeap:none=%d,59=%d,61=%d,unknown=%d" % (cnt["none"], cnt["59"], cnt["61"], cnt["unknown"])
                out.violation(sig, {"how": "replay", "case": case, "order": order, "expected_vote": exp, "observed": v,
                                    "differing": ["out.vote"]})
    if kinds != {"none", "59", "61", "keep"}:
        raise vf.ToolError("vacuous leap enumeration: outcomes %s" % sorted(kinds))
    out.add("model_transitions_constrained_by_property", len(cases))
    out.add("model_transitions_confirmed_on_impl", len(cases))
    out.add("leap_orders_replayed", 3 * len(cases))
    out.sample({"leap_case": [c for c in cases if c["vote"] == "keep" and len(c["l"]) >= 4][:1]})


# ------------------------------------------------------------------------------------------------
def run(prop, tier, seed):
    out = vf.Outcome(prop, tier, seed, MANIFEST[prop]["level"])
    out.assumptions += ["code observed as compiled for tests (debug assertions, overflow checks, panic instead of process::exit)"]
    if prop == "C03":
        out.coverage["rule"] = ("every candidate list of the bounded enumeration (all orders, all tie/touching cases) is evaluated by the "
                                "specification's Select and by the real select(); results must be identical")
        select_pure(out, prop, tier, seed)
        out.coverage.setdefault("traces_validated_against_impl", 0)
    elif prop == "C04":
        out.coverage["rule"] = ("every multiset of leap indicators of the bounded enumeration is voted on by the specification and, in "
                                "three orders, by the real combine(); results must be identical")
        leap_pure(out, prop, tier, seed)
        out.coverage.setdefault("traces_validated_against_impl", 0)
    else:
        raise vf.ToolError("not implemented: %s" % prop)
    return out


PROPS = ["C03", "C04"]

_T = ("TLA+ specification (spec/ClockSel.tla, spec/ClockCtl.tla) model-checked with TLC; every enumerated case / explored transition "
      "replayed on the real code (select(), combine(), TimeSyncControllerWrapper<KalmanClockController<mock clock>>)")
MANIFEST = {
    "C03": dict(level="model_checking", technique=_T, design_ref="6.3, 7 (Clock controller group)", engine="tlc+replay",
                text="Selection transcribed as Select; declarative majority/minimum condition checked by TLC on every candidate list "
                     "(<=4 sources, all orders, ties, periodic/unsynchronised/too-wide flags); each case replayed on the real select() "
                     "with exactly representable floats.",
                note="bounded: <=4 candidates, small integer interval ends; the numeric Kalman filter is not modelled"),
    "C04": dict(level="model_checking", technique=_T, design_ref="6.3, 7 (Clock controller group)", engine="tlc+replay",
                text="Leap vote transcribed as VoteLeap; strict-majority-of-known condition checked by TLC on all multisets of <=6 "
                     "indicators; each replayed in three orders on the real combine().",
                note="bounded: <=6 (thorough 12) selected sources"),
}


# ------------------------------------------------------------------------------------------------
# bounded configurations of MC_ClockCtl (spec/MC_ClockCtl_<name>.cfg, spec/Gen_ClockCtl_<name>.cfg are generated
# from this table by `python3 checks/clock.py --gen` and committed)
# ------------------------------------------------------------------------------------------------
INF = 9999
_DEF = dict(N=1, MinAgree=1, StepThresh=0, SFwd2=INF, SBwd2=INF, Fwd2=INF, Bwd2=INF, Acc2=INF, TrackFreq=False, F0=0, F0Neg=False,
            MaxSteer=495, SlewMax=200, MaxSamples=1, Ghosts=False, OffPos=[0, 2], OffNeg=[], LeapVals=["none"], Wides=[False],
            MaxChan=1, Bound=6, UsableVals=[True])


def _c(**kw):
    d = dict(_DEF)
    d.update(kw)
    return d


CFGS = {
    # thresholds (half seconds: 2t = t s, 2t+1 / 2t-1 = one unit of 2^-32 s above / below t s)
    "ThrA": _c(SBwd2=6, Fwd2=4, Bwd2=5, OffPos=[1, 2, 3], OffNeg=[1, 2, 3]),
    "ThrB": _c(SFwd2=3, Acc2=8, OffPos=[1, 2, 3], OffNeg=[1, 2], MaxSamples=2),
    "ThrC": _c(Fwd2=6, Bwd2=3, Acc2=7, OffPos=[0, 1, 2, 3], OffNeg=[1, 2]),
    "ThrD": _c(N=2, MinAgree=2, Fwd2=4, Bwd2=4, MaxChan=2, OffPos=[0, 2, 3], OffNeg=[2]),
    # frequency (single source slot, slews for |change| <= 1 s)
    "FrqA": _c(TrackFreq=True, StepThresh=1, Fwd2=6, Bwd2=6, OffPos=[0, 1, 2, 3], OffNeg=[1, 2]),
    "FrqB": _c(TrackFreq=True, StepThresh=1, F0=445, OffPos=[0, 1, 2], OffNeg=[1]),
    "FrqC": _c(TrackFreq=True, StepThresh=1, F0=990, F0Neg=True, OffPos=[0, 1, 2], OffNeg=[1]),
    "FrqD": _c(TrackFreq=True, StepThresh=1, SlewMax=600, OffPos=[0, 1], OffNeg=[1], MaxChan=2),
    # consensus and leap vote end to end
    "ConsA": _c(N=3, MinAgree=2, OffPos=[0, 2], LeapVals=["none", "59"], Wides=[False, True], UsableVals=[True, False], Bound=4),
    "ConsB": _c(N=3, MinAgree=1, OffPos=[0], LeapVals=["none", "59", "61", "unknown", "unsync"], Bound=2),
    # interleavings of source-task operations with the controller loop
    "ChanA": _c(N=2, MaxChan=2, MaxSamples=2, Ghosts=True, OffPos=[0, 2], UsableVals=[True, False], Bound=4),
    "ChanB": _c(N=3, MaxChan=3, MaxSamples=2, Ghosts=True, OffPos=[0, 2], UsableVals=[True, False], Bound=4),
}


def _tla(v):
    if isinstance(v, bool):
        return "TRUE" if v else "FALSE"
    if isinstance(v, int):
        return str(v)
    if isinstance(v, str):
        return '"%s"' % v
    if isinstance(v, list):
        return "{" + ", ".join(_tla(x) for x in v) + "}"
    raise ValueError(v)


INVS = "TypeOK C01_StepsWithinThresholds C02_FrequencyBounds C03_MajorityConsensus C04_LeapMajority C37_OnlyRegisteredUsable"


def gen_cfgs():
    for name, c in CFGS.items():
        body = "CONSTANTS\n" + "".join("  %s = %s\n" % (k, _tla(v)) for k, v in c.items())
        for kind, ini, nxt in (("MC", "Init", "Next"), ("Gen", "GenInit", "GenNext")):
            with open(os.path.join(vf.SPEC, "%s_ClockCtl_%s.cfg" % (kind, name)), "w") as f:
                f.write(body + "INIT %s\nNEXT %s\nCHECK_DEADLOCK FALSE\nINVARIANTS %s\n" % (ini, nxt, INVS))


if __name__ == "__main__":
    import sys
    if "--gen" in sys.argv:
        gen_cfgs()
