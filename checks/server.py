"""Checks decided with spec/Server.tla: C15 C16 C17 C18 C19 C20 C21 C22 (the NTP server request pipeline).

The specification transcribes what the code does; TLC evaluates the declarative property on every transition of
the bounded model (invariant PropHolds: it holds everywhere outside the named known shapes F3/F4/F16) and prints
every transition with the properties it falsifies (`bad`).  A transition tour is replayed on the real Server:
  * an observable in the property's cone that differs from the specification  -> VIOLATION (divergence);
  * a transition on which the model falsifies the property and the implementation behaves exactly as the model
    says (replayed without divergence) -> the design-level counterexample is real -> VIOLATION with the
    signature of the known shape (KNOWN-FINDING when listed in known_findings.json).
"""
import os, json, random
import vf, sm

CUTOFF = 3
SLICES = {
    "C15": ["Policy"],
    "C16": ["Size"],
    "C17": ["Size"],
    "C18": ["Size"],
    "C19": ["Size"],
    "C20": ["Rate"],
    "C21": ["Policy", "Size", "Stats"],
    "C22": ["Mut"],
}
THOROUGH_EXTRA = {"C22": ["Size"], "C20": ["Policy"]}

KNOWN_SIG = {
    "C15": lambda a: "Server:C15:F-3 datagram that is not a client request but carries a failing NTS authenticator is answered",
    "C17": lambda a: ("Server:C17:F-4 answer longer than the request: v5 draft identification added to the answer of a request without one"
                      if a["body"]["ver"] == 5 and not any(i["k"] == "draft" and i["q"] == "ok" for i in a["body"]["items"])
                      else "Server:C17:F-4 answer longer than the request: echoed unique identifier shorter than the minimum size of its new position"),
    "C19": lambda a: "Server:C19:F-16 time answer to an authenticated request carries no authenticator (no unique identifier, no cookie among the first eight fields)",
}


def item_sig(i):
    k = i["k"]
    if k == "auth":
        return "auth(%s,%s,[%s])" % (i["q"], i["n"], " ".join(item_sig(e) for e in i["enc"]))
    if k in ("cookie", "bad", "draft", "refreq"):
        return "%s(%s,%s)" % (k, i["q"], i["n"])
    return "%s(%s)" % (k, i["n"])


def body_sig(b):
    if b["form"] != "pkt":
        return "%s(v%s)" % (b["form"], b["ver"])
    s = "v%s,mode=%s" % (b["ver"], b["mode"])
    if not b["hdrok"]:
        s += ",badhdr"
    if b["marker"]:
        s += ",marker"
    s += ",[" + " ".join(item_sig(i) for i in b["items"]) + "]"
    if b["tail"]:
        s += "+%d" % b["tail"]
    return s


class Server(sm.SM):
    module = "Server"
    mc_module = "MC_Server"
    crate = "ntp_proto"
    test = "server::verif_hook::verif_server"

    def act_sig(self, a):
        if a["t"] == "Tick":
            return "Tick(%s)" % a["n"]
        if a["t"] == "Reg":
            return "Reg(nts=%s,%s,%s)" % (a["nts"], a["reason"], a["resp"])
        c = a["cfg"]
        s = "%s[deny=%s,allow=%s,nts=%s,acc=%s,cache=%s,info=%s;%s;%s" % (
            a["t"], c["denyAct"], c["allowAct"], c["requireNts"], "".join(str(v) for v in sorted(c["accepted"])), c["cache"], c["info"],
            a["addr"]["name"], body_sig(a["body"]))
        if a["t"] == "Mut":
            m = a["mut"]
            s += ";%s@%s=%s" % (m["m"], m["at"], m["v"])
        return s + "]"

    def run_slice(self, out, prop, tier, seed, slice_, max_len=80):
        deep = tier == "thorough"
        wd = vf.workdir("Server_%s" % slice_)
        cf = os.path.join(wd, "Gen_Server_%s_%s_%s.cfg" % (slice_, prop, tier))
        with open(cf, "w") as f:
            f.write("CONSTANTS\n  Slice = \"%s\"\n  Deep = %s\n  Cutoff = %d\n  Prop = \"%s\"\n" % (slice_, "TRUE" if deep else "FALSE", CUTOFF, prop))
            f.write("INIT GenInit\nNEXT GenNext\nCHECK_DEADLOCK FALSE\nINVARIANTS TypeOK PropHolds\n")
        g, mc, inits = vf.collect_graph(self.mc_module, cf, workers=8, timeout=3000, name="Gen_Server_%s_%s" % (slice_, prop))
        if mc.violated:
            raise vf.ToolError("model Server/%s falsifies %s outside the known shapes (%s):\n%s" % (slice_, prop, mc.violated, mc.error_trace[:3000]))
        out.add("states", mc.distinct)
        out.add("transitions", len(g.edges))
        if not inits:
            raise vf.ToolError("generator printed no INIT state")
        flt = lambda rec: bool(rec["cones"].get(prop))
        wanted = [i for i, e in enumerate(g.edges) if flt(e[2])]
        if not wanted:
            raise vf.ToolError("vacuous: no transition of Server/%s is constrained by %s" % (slice_, prop))
        walks = g.tours(inits[0], max_len=max_len, rng=random.Random(seed), edge_filter=flt)
        wf = os.path.join(wd, "walks_%s.ndjson" % prop)
        vf.write_ndjson(wf, [{"id": n, "walk": [{"act": g.edges[e][2]["act"], "post": g.edges[e][2]["post"], "out": g.edges[e][2]["out"]} for e in w]}
                             for n, w in enumerate(walks)])
        rf = os.path.join(wd, "results_%s.ndjson" % prop)
        crate, test = ("ntpd", "daemon::server::verif_hook::verif_server_stats") if slice_ == "Stats" else (self.crate, self.test)
        vf.run_harness(crate, test, {"mode": "replay", "cfg": {"Cutoff": CUTOFF}, "input": wf, "output": rf, "seed": seed}, timeout=3000)
        results = vf.read_ndjson(rf)
        if len(results) != len(walks):
            raise vf.ToolError("harness returned %d results for %d walks" % (len(results), len(walks)))
        covered, steps = set(), 0
        for r in results:
            w = walks[r["id"]]
            steps += r["steps_run"]
            ok_upto = r["steps_run"] if r["fail"] is None else r["fail"]["step"]
            covered.update(w[:ok_upto])
            if r["fail"] is not None:
                f = r["fail"]
                rec = g.edges[w[f["step"]]][2]
                self.attribute(out, prop, slice_, rec, f, [self.act_sig(g.edges[x][2]["act"]) for x in w[max(0, f["step"] - 5):f["step"] + 1]], "replay")
        confirmed = [e for e in covered if flt(g.edges[e][2])]
        out.add("replayed_steps", steps)
        out.add("replayed_walks", len(walks))
        out.add("model_transitions_constrained_by_property", len(wanted))
        out.add("model_transitions_confirmed_on_impl", len(confirmed))
        # design-level counterexamples that the implementation reproduces
        cex = [e for e in confirmed if prop in g.edges[e][2].get("bad", [])]
        out.add("model_counterexamples_confirmed_on_impl", len(cex))
        for e in cex:
            rec = g.edges[e][2]
            sig = KNOWN_SIG.get(prop, lambda a: "Server:%s:model counterexample %s" % (prop, self.act_sig(a)))(rec["act"])
            out.violation(sig, {"how": "model counterexample confirmed by replay", "slice": slice_, "act": rec["act"], "act_sig": self.act_sig(rec["act"]),
                                "model_and_implementation_out": rec["out"]})
        if walks and walks[0]:
            w = walks[0][:3]
            out.sample({"slice": slice_, "walk_prefix": [self.act_sig(g.edges[e][2]["act"]) for e in w], "expected_out_of_last": g.edges[w[-1]][2]["out"]})
        return g


def fuzz(out, s, g, tier, seed):
    """byte-level mutations of the concretised layouts of the Mut slice (C22): panic = data"""
    bodies, seen = [], set()
    for (_, _, rec) in g.edges:
        k = vf.key(rec["act"]["body"])
        if k not in seen:
            seen.add(k)
            bodies.append(rec["act"]["body"])
    cfgs = []
    for (_, _, rec) in g.edges:
        if rec["act"]["cfg"] not in cfgs:
            cfgs.append(rec["act"]["cfg"])
    wd = vf.workdir("Server_fuzz")
    of = os.path.join(wd, "fuzz.ndjson")
    n = 3000 if tier == "quick" else 300000
    vf.run_harness(s.crate, s.test, {"mode": "fuzz", "seed": seed, "count": n, "bases": bodies, "cfgs": cfgs, "output": of}, timeout=3000)
    rows = vf.read_ndjson(of)
    done = [r for r in rows if r.get("ev") == "done"]
    if not done or done[-1]["count"] != n:
        raise vf.ToolError("fuzz run incomplete")
    out.add("evaluations", 2 * n)
    out.coverage["fuzz_outcomes"] = done[-1]["outcomes"]
    out.add("fuzz_answered", done[-1]["answered"])
    for r in rows:
        if r.get("ev") == "panic":
            out.violation("Server:C22:panic:%s" % r["panic"][:80], r)
        elif r.get("ev") == "nstat":
            out.notes.append("byte-mutated datagram registered %d statistics entries: %s" % (r["n"], r["datagram"][:120]))
    return len(done[-1]["outcomes"])


def trace(out, s, prop, tier, seed):
    """(T) seeded random request streams (layouts far outside the bounded alphabets) validated by Trace_Server"""
    wd = vf.workdir("Server_trace")
    tf = os.path.join(wd, "trace_%s.ndjson" % prop)
    sessions, steps = (60, 60) if tier == "quick" else (1500, 100)
    vf.run_harness(s.crate, s.test, {"mode": "record", "cfg": {"Cutoff": CUTOFF}, "seed": seed, "sessions": sessions, "steps": steps, "output": tf}, timeout=3000)
    events = sum(1 for _ in open(tf))
    mism, done = [], []

    def sink(tag, obj):
        (mism if tag == "MISMATCH" else done).append(obj)
    res = vf.run_tlc("Trace_Server", "Trace_Server.cfg", workers=1, timeout=3000, env={"TRACE": tf}, tags=("MISMATCH", "DONE"),
                     line_sink=sink, coverage=False, xmx="6g", name="Trace_Server_" + prop)
    if res.violated:
        raise vf.ToolError("trace spec failed: %s\n%s" % (res.violated, res.error_trace[:2000]))
    if not done or done[-1].get("consumed") != events:
        raise vf.ToolError("trace validation did not consume the whole trace (%s of %d events)\n%s" % (done[-1] if done else None, events, res.stdout[-1500:]))
    out.add("traces_validated_against_impl", done[-1].get("behaviours", 0))
    out.add("trace_events", events)
    for m in mism:
        rec = {"act": m["act"], "cones": m["cones"], "post": m["expected"]["st"], "out": m["expected"]["out"]}
        s.attribute(out, prop, "trace", rec, {"fields": m["fields"], "observed": m["observed"], "panic": m.get("panic")},
                    [{"trace": tf, "line": m["line"], "pre": m.get("pre")}], "trace")


def udp(out, s, g, tier, seed):
    """C16 end to end: every datagram of the size slice sent to the real ServerTask over loopback UDP"""
    # the daemon receives into a 1024-byte buffer: longer datagrams never reach Server::handle whole
    edges = [rec for (_, _, rec) in g.edges if rec["act"]["t"] == "Handle" and rec["act"]["cfg"]["info"] == "s2" and rec["out"]["reqlen"] <= 1024]
    if tier == "quick":
        rng = random.Random(seed)
        answered = [r for r in edges if r["out"]["bresp"] != "ignore"]
        edges = rng.sample(answered, min(400, len(answered))) + rng.sample(edges, min(100, len(edges)))
    wd = vf.workdir("Server_udp")
    inp, emitted, res, ks = (os.path.join(wd, n) for n in ("acts.ndjson", "datagrams.ndjson", "udp_results.ndjson", "keyset.bin"))
    vf.write_ndjson(inp, [{"id": i, "act": r["act"]} for i, r in enumerate(edges)])
    vf.run_harness(s.crate, s.test, {"mode": "emit", "seed": seed, "input": inp, "output": emitted, "keyset": ks})
    vf.run_harness("ntpd", "daemon::server::verif_hook::verif_server_udp", {"input": emitted, "output": res, "keyset": ks}, timeout=1500)
    rows = vf.read_ndjson(res)
    if len(rows) != len(edges):
        raise vf.ToolError("udp stage returned %d results for %d datagrams" % (len(rows), len(edges)))
    n_ans = 0
    for r in rows:
        rec = edges[r["id"]]
        if r["len"] < 0:
            raise vf.ToolError("udp stage: sentinel not answered after %s" % s.act_sig(rec["act"]))
        n_ans += 1 if r["len"] > 0 else 0
        fields = []
        if r["len"] > r["reqlen"] or r["answers"] > 1:
            fields.append("fits")
        if r["len"] != rec["out"]["len"]:
            fields.append("len")
        if fields:
            s.attribute(out, "C16", "Size/udp", rec, {"fields": fields, "observed": r}, [s.act_sig(rec["act"])], "udp")
    out.add("udp_datagrams_sent", len(rows))
    out.add("udp_datagrams_answered", n_ans)
    if n_ans == 0:
        raise vf.ToolError("vacuous: no datagram answered over UDP")


def run(prop, tier, seed):
    level = MANIFEST[prop]["level"]
    out = vf.Outcome(prop, tier, seed, level)
    out.assumptions += ["AES-SIV treated as ideal (real cipher used, no cryptanalytic inputs)",
                        "code observed as compiled for tests (debug assertions, overflow checks)",
                        "request authenticators use the cipher's own 16-byte nonces (the crate offers no way to seal with another nonce length)",
                        "rate-limit time is driven by ageing the cache entries (the code reads std::time::Instant::now()); one model tick = 2 s"]
    s = Server()
    slices = list(SLICES[prop]) + (THOROUGH_EXTRA.get(prop, []) if tier == "thorough" else [])
    graphs = {}
    for sl in slices:
        graphs[sl] = s.run_slice(out, prop, tier, seed, sl)
    if prop == "C16":
        udp(out, s, graphs["Size"], tier, seed)
    trace(out, s, prop, tier, seed)
    if prop == "C22":
        classes = set()
        for (_, _, rec) in graphs["Mut"].edges:
            a = rec["act"]
            classes.add((body_sig(a["body"]), a["mut"]["m"], a["mut"]["at"], a["mut"]["v"]))
        kinds = fuzz(out, s, graphs["Mut"], tier, seed)
        out.add("evaluations", out.coverage.get("replayed_steps", 0) * 2)
        out.coverage["distinct_nontrivial"] = len(classes)
        out.coverage["rule"] = ("TLC enumerates (layout x structural mutation) classes: NTS/plain/v3/v4/v5 layouts, each truncated at every field boundary -1/0/+1 and with "
                                "every length field (field, nonce, ciphertext) set to 0,1,3,4,actual-1,actual+1,65535, version bits rewritten; each class is concretised with real "
                                "cookies and sealing, mutated before sealing, and handled twice (request-sized and 8 KiB buffer) under catch_unwind from an allowed and a denied address; "
                                "distinct_nontrivial = number of distinct (layout, mutation) classes replayed (every class changes the parse path of a well-formed layout); plus seeded "
                                "byte-level mutations of the same layouts (%d outcome kinds observed). Oracle: no panic, exactly one statistics entry. Totality over all byte strings is not claimed." % kinds)
    else:
        out.coverage["rule"] = ("every transition of the bounded Server model (slices %s) constrained by this property is covered by a transition tour replayed on the real "
                                "ntp_proto::Server (each datagram handled with a request-sized and an 8 KiB buffer); model-level counterexamples are confirmed on the implementation" % ",".join(slices))
    return out


PROPS = ["C15", "C16", "C17", "C18", "C19", "C20", "C21", "C22"]

_T = ("TLA+ model of the server pipeline (spec/Server.tla: policy order, parser, NTS gates, response builders, encoder size arithmetic, rate-limit cache) "
      "model-checked with TLC over enumerated configurations x address classes x datagram layouts; every explored transition replayed on the real Server "
      "with real cookies/sealing and hand-decoded answers; design-level counterexamples confirmed on the implementation")
_N = ("bounded alphabets (see MC_Server.tla): <=3 extension fields from a boundary-length set plus NTS layouts with 0..8 placeholders, 2 AEAD algorithms, 4 key-rotation ages; "
      "conformance only on the replayed transitions and recorded random streams (Trace_Server); cipher treated as ideal; in-process (Server::handle), the daemon's UDP loop is not driven")
MANIFEST = {p: dict(level="model_checking", technique=_T, note=_N, design_ref="6.5, 7 (Server group)", engine="tlc+replay+trace", text=t) for p, t in {
    "C15": "Deny/allow order and actions, malformed / non-client / non-accepted versions never answered, require-nts, and the positive clause, for 10 address spellings (IPv4, IPv6, IPv4-mapped, mapped subnet) x 37 datagram classes x 24 [60] configurations, on the model and the real Server.",
    "C16": "Length of every answer produced with the daemon's request-sized buffer <= request length, and equal to the model's size arithmetic, for ~600 [several thousand] extension-field layouts (plain/NTS, v3/v4/v5, time/DENY/NAK); the same datagrams are also sent to the real ServerTask over loopback UDP and the reply lengths compared (end to end).",
    "C17": "Decision with a request-sized buffer = decision with an 8 KiB buffer for every layout; TLC searches the transcribed size arithmetic for layouts whose answer outgrows the request and the replay confirms them on the code.",
    "C18": "Echo list (unique identifiers outside the encrypted part, v5 reference-id responses, draft id), symbolic header per answer kind and server state, upgrade marker, and canary search for any other request content, for every layout.",
    "C19": "Failing authentication never yields time; time answers open under the cookie's s2c key; fresh cookies <= min(8, cookie+placeholder fields), fit the field they replace and decode under the current key set to the session keys (2 algorithms, old/expired/foreign cookies).",
    "C20": "Rate-limit cache as a state machine: 3 clients (two sharing a slot) + denied/not-allowed clients, ticks {1, cutoff-1, cutoff}; limited iff same occupant younger than the cutoff; slot refreshed by every list-passing request; cache size 0 never limits.",
    "C21": "Exactly one statistics entry per handled datagram (both buffer sizes), response kind = what was done, NTS flag only for NTS requests and for every answered one, over the policy and size slices.",
}.items()}
MANIFEST["C22"] = dict(level="exploration", technique="TLC enumerates (layout x structural mutation) classes of spec/MC_Server.tla; each is concretised (real cookies, real sealing, mutation before sealing) and handled by the real Server under catch_unwind; plus seeded byte-level mutations",
                       note="oracle: no panic and exactly one statistics entry; structured half of the input space only, totality over all byte strings not claimed", design_ref="7 (C22), 8", engine="tlc+replay+fuzz",
                       text="No (layout x truncation / length-field / version mutation) class and no seeded byte mutation of the enumerated layouts makes Server::handle panic.")
