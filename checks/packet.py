"""Checks decided with spec/Packet.tla: C24 (decode/encode round trip), C25 (tampered NTS packets), C23 (decoder totality
and predicted result class).  TLC enumerates datagram layouts with the transcribed codec's prediction; the harness
(harness/ntp_proto/packet.rs) concretises every layout and runs the real codec."""
import os, json
import vf

FINDING_F5 = ("Packet:v5 ReferenceIdRequest whose payload length is not a multiple of 4 is accepted by the decoder "
              "and panics in serialize")
TEST = "packet::verif_hook::verif_packet"


def generate(cfgname):
    cases, sealed, regions = {}, [], {}

    def sink(tag, obj):
        if tag == "CASE":
            cases[vf.key(obj)] = obj
        elif tag == "SEALED":
            sealed.append(obj)
        else:
            regions.update(obj)
    res = vf.run_tlc("MC_Packet", "Gen_Packet_%s.cfg" % cfgname, workers=8, timeout=3000, tags=("CASE", "SEALED", "REGIONS"),
                     line_sink=sink, coverage=False)
    if res.violated:
        raise vf.ToolError("Packet model %s violates %s at design level:\n%s" % (cfgname, res.violated, res.error_trace[:3000]))
    out = []
    for n, k in enumerate(sorted(cases)):
        c = cases[k]
        c["id"] = n
        out.append(c)
    sealed.sort(key=vf.key)
    return res, out, sealed, regions


def kinds(c):
    return ",".join("%s(%d)" % (r["k"], r["dl"]) for r in c["body"] if r["c"] == "H") or "-"


def brief(c):
    return {"ver": c["ver"], "total": c["total"], "fields": kinds(c), "body": [[r["c"], r["n"]] if r["c"] != "H" else ["H", r["k"], r["dl"]] for r in c["body"]],
            "model_decode": c["dec"], "model_roundtrip": c["rt"]}


def run_cases(name, cases, seed, contexts, chain, mutations):
    wd = vf.workdir("Packet_" + name)
    inp, outp = os.path.join(wd, "cases.ndjson"), os.path.join(wd, "results.ndjson")
    vf.write_ndjson(inp, cases)
    vf.run_harness("ntp_proto", TEST, {"mode": "cases", "input": inp, "output": outp, "seed": seed, "contexts": contexts,
                                       "chain": chain, "mutations": mutations})
    res = vf.read_ndjson(outp)
    if len(res) != len(cases):
        raise vf.ToolError("harness returned %d results for %d cases" % (len(res), len(cases)))
    return res


def run_c24(out, tier, seed):
    res, cases, _, _ = generate("Layouts" if tier == "quick" else "LayoutsBig")
    out.add("states", res.distinct)
    out.add("transitions", res.generated)
    out.add("traces_validated_against_impl", 0)
    out.add("model_layouts", len(cases))
    results = run_cases("C24", cases, seed, ["none"], True, 0)
    for c, r in zip(cases, results):
        obs = r["obs"]["none"]
        if obs != c["dec"] and not c["weak"]:
            out.divergences.append({"case": brief(c), "observed_decode": obs})
            out.notes.append("decoder result differs from the transcribed decoder (attributed to C23): %s predicted %s observed %s" % (kinds(c), c["dec"], obs))
        if obs != "ok":
            continue
        out.add("accepted_by_real_decoder", 1)
        ch = r["chain"]
        if ch != "ok":
            if c["f5"] and ch.startswith("encode_panic"):
                sig = FINDING_F5
            else:
                sig = "Packet:C24:v%d:%s:%s" % (c["ver"], kinds(c), ch.split(":")[0])
            out.violation(sig, {"case": brief(c), "chain": ch, "model_expected_chain": c["rt"]})
            continue
        out.add("round_trips_confirmed_on_impl", 1)
        if not c["weak"] and c["dec"] == "ok" and c["enc"] == "ok":
            if r.get("d1_equal") is False:
                out.violation("Packet:C24:v%d:%s:re-encoding differs from the transcribed encoder" % (c["ver"], kinds(c)),
                              {"case": brief(c), "real": r.get("d1_real"), "model": r.get("d1_model")})
            else:
                out.add("reencodings_equal_to_model", 1)
        if len(out.coverage["samples"]) < 4 and c["ver"] in (4, 5) and len(c["body"]) > 3:
            out.sample({"layout": brief(c), "real_decode": obs, "real_chain": ch})
    if out.coverage.get("accepted_by_real_decoder", 0) < 100 or out.coverage.get("reencodings_equal_to_model", 0) < 100:
        raise vf.ToolError("vacuous: too few layouts accepted by the real decoder (%s)" % out.coverage.get("accepted_by_real_decoder"))


def run_c25(out, tier, seed):
    res, _, sealed, regions = generate("Sealed")
    out.add("states", res.distinct)
    out.add("transitions", res.generated)
    out.add("traces_validated_against_impl", 0)
    if len(regions) != 9 or not sealed:
        raise vf.ToolError("generator printed no region table / sealed cases")
    if tier == "quick":
        # half of the parameter space, alternating, all values of every parameter still present
        sealed = [s for i, s in enumerate(sealed) if (i + seed) % 2 == 0 or s["npre"] == 3]
    wd = vf.workdir("Packet_C25")
    inp, outp = os.path.join(wd, "sealed.ndjson"), os.path.join(wd, "results.ndjson")
    vf.write_ndjson(inp, sealed)
    vf.run_harness("ntp_proto", TEST, {"mode": "sealed", "input": inp, "output": outp, "seed": seed, "tamper": True}, timeout=3000)
    results = vf.read_ndjson(outp)
    order = ["header", "pre", "ahdr", "lens", "nonce", "npad", "ct", "cpad", "after"]
    same_after = 0
    for r in results:
        if r.get("baseline_excess"):
            # the genuine datagram itself: content that the authenticator does not cover is reported as authenticated
            out.violation("Packet:C25:v%d/%s%s:genuine datagram: more fields reported authenticated than the authenticator covers" % (
                r["case"]["ver"], r["case"]["dir"], "/trailing" if r["case"]["trailing"] else ""),
                {"sealed": r["case"], "observed": r["baseline_excess"], "baseline": r["baseline"]})
            continue
        if r["baseline"] != "ok":
            raise vf.ToolError("sealed datagram %s does not decode with its own key: %s" % (r["case"], r["baseline"]))
        rg = r["regions"]
        if [x[0] for x in rg] != order or rg[0][1] != 0 or rg[-1][2] != r["len"] or any(rg[i][2] != rg[i + 1][1] for i in range(8)):
            raise vf.ToolError("measured regions do not partition the datagram: %s" % rg)
        out.add("sealed_datagrams", 1)
        out.add("tampered_decodes", r["decodes"])
        cs = "v%d/%d/%s/pre%d%s" % (r["case"]["ver"], r["case"]["alg"], r["case"]["dir"], r["case"]["npre"], "/trailing" if r["case"]["trailing"] else "")
        for name, a, b in rg:
            st = r["stats"].get(name, {"none": 0, "same": 0, "other": 0})
            if b > a and sum(st.values()) == 0:
                raise vf.ToolError("region %s of %s was not exercised" % (name, cs))
            exp = regions[name]["expect"]
            bad = st["other"] + (st["same"] if exp == "none" else 0)
            if bad:
                kind = "other content accepted" if st["other"] else "modification accepted as authentic"
                out.violation("Packet:C25:%s:%s:%s" % (cs, name, kind),
                              {"case": r["case"], "region": name, "range": [a, b], "expected": exp, "stats": st, "examples": r["bad"]})
            if name == "after":
                same_after += st["same"]
        out.sample({"case": r["case"], "len": r["len"], "regions": rg, "outcomes_per_region": r["stats"]})
    if same_after == 0 and not out.violations:
        raise vf.ToolError("vacuous: no modification was ever ignored (the right key never authenticated anything)")
    out.coverage["region_expectations_from_model"] = {k: v["expect"] for k, v in regions.items()}


def run_c23(out, tier, seed):
    res, cases, sealed, _ = generate("Derived" if tier == "quick" else "DerivedBig")
    mutations = 2 if tier == "quick" else 8
    # keyset_live / keyset_live_ct: the server's cookie keys, and every cookie field names a key the set holds
    # (with a zero / a genuine ciphertext length) - the decoder then goes all the way into KeySet::decode_cookie
    ctxs = ["none", "cipher", "keyset", "keyset_live", "keyset_live_ct"]
    results = run_cases("C23", cases, seed, ctxs, False, mutations)
    distinct = set()
    evals = 0
    for c, r in zip(cases, results):
        evals += len(ctxs) * (1 + mutations)
        for cx in ctxs:
            obs = r["obs"][cx]
            if obs.startswith("panic"):
                out.violation("Packet:C23:panic:%s" % obs[6:80], {"case": brief(c), "ctx": cx, "observed": obs})
            elif not c["weak"] and obs != c["dec"]:
                out.violation("Packet:C23:v%s:%s:predicted %s observed %s" % (c["ver"], kinds(c), c["dec"], obs),
                              {"case": brief(c), "ctx": cx, "observed": obs})
        for p in r.get("mutation_panics", []):
            out.violation("Packet:C23:panic:%s" % p["panic"][6:80], {"case": brief(c), "mutated_input": p["input"], "ctx": p["ctx"]})
        if not c["weak"] and c["body"]:
            distinct.add((c["ver"], c["dec"], kinds(c), c["total"]))
        if len(out.coverage["samples"]) < 5 and len(c["body"]) > 2 and c["dec"] != "err:len":
            out.sample({"layout": brief(c), "observed": r["obs"]})
    wd = vf.workdir("Packet_C23")
    inp, outp = os.path.join(wd, "sealed.ndjson"), os.path.join(wd, "sealed_results.ndjson")
    vf.write_ndjson(inp, sealed)
    vf.run_harness("ntp_proto", TEST, {"mode": "sealed", "input": inp, "output": outp, "seed": seed, "tamper": False})
    for r in vf.read_ndjson(outp):
        evals += 2 + len(r["class_right"])
        exp = {"class_none": "err:decrypt", "class_wrong": "err:decrypt"}
        obs = {"class_none": r["class_none"], "class_wrong": r["class_wrong"]}
        for n, cl in r["class_right"]:
            exp["right_" + n] = "ok"
            obs["right_" + n] = cl
        for k in exp:
            if obs[k].startswith("panic"):
                out.violation("Packet:C23:panic:%s" % obs[k][6:80], {"sealed": r["case"], "ctx": k})
            elif obs[k] != exp[k]:
                out.violation("Packet:C23:sealed:%s:predicted %s observed %s" % (k, exp[k], obs[k]), {"sealed": r["case"]})
        evals += r.get("word_decodes", 0)
        for wp in r.get("word_panics", []):
            out.violation("Packet:C23:panic:sealed length word (%s) = %d: %s" % (wp["region"], wp["value"], wp["panic"][6:70]),
                          {"sealed": r["case"], "edit": wp})
        distinct.add(("sealed", vf.key(r["case"])))
    out.coverage["evaluations"] = evals
    out.coverage["distinct_nontrivial"] = len(distinct)
    out.coverage["model_cases"] = len(cases)
    out.coverage["tlc_states"] = res.distinct
    if len(distinct) < 100:
        raise vf.ToolError("vacuous: only %d distinct layouts" % len(distinct))


def cookie_plaintext_stage(out, tier, seed):
    """C23, server-key context: spec/CookiePlain.tla enumerates plaintext shapes of cookies that authenticate under a held key;
    each is decoded by the real KeySet alone and inside a sealed v4 / v5 request."""
    cases = []
    res = vf.run_tlc("CookiePlain", "CookiePlain.cfg", workers=1, timeout=600, tags=("PCASE",), line_sink=lambda t, o: cases.append(o), coverage=False)
    if res.violated or not cases:
        raise vf.ToolError("CookiePlain: %s" % (res.violated or "no cases"))
    cases.sort(key=vf.key)
    wd = vf.workdir("CookiePlain")
    inp, outp = os.path.join(wd, "cases.ndjson"), os.path.join(wd, "results.ndjson")
    vf.write_ndjson(inp, cases)
    vf.run_harness("ntp_proto", "keyset::verif_hook::verif_keyset", {"mode": "plaintexts", "input": inp, "output": outp, "seed": seed})
    rows = vf.read_ndjson(outp)
    if len(rows) != 2 * len(cases):
        raise vf.ToolError("CookiePlain: %d results for %d cases" % (len(rows), len(cases)))
    oks = 0
    for r in rows:
        c = cases[r["id"]]
        name = c["short"] or "alg=%d,len=%d" % (c["alg"], c["len"])
        want = "ok" if c["ok"] else "err"
        obs = [("decode_cookie", r["alone"])] + [("v%d request" % v, x) for v, x in r["in_packet"]]
        for where, got in obs:
            if got.startswith("panic"):
                out.violation("Packet:C23:panic:cookie plaintext %s (%s): %s" % (name, where, got[6:60]), {"case": c, "observed": r})
            elif got != want:
                out.violation("Packet:C23:cookie plaintext %s (%s): predicted %s observed %s" % (name, where, want, got), {"case": c, "observed": r})
        oks += c["ok"]
    if oks == 0:
        raise vf.ToolError("CookiePlain: vacuous (no accepted shape)")
    out.add("cookie_plaintext_shapes", len(cases))
    out.add("cookie_plaintext_decodes", 3 * len(rows))


def run(prop, tier, seed):
    out = vf.Outcome(prop, tier, seed, "exploration" if prop == "C23" else "model_checking")
    out.assumptions += ["code observed as compiled for tests (debug assertions, overflow checks)",
                        "layouts are built from well-formed 4-byte-aligned chunks; data bytes read as a field header are always rejected "
                        "(classes chosen so: zero, 0xA5, ASCII)"]
    if prop == "C24":
        out.coverage["rule"] = ("TLC enumerates layouts (focus field kind x body length x content class x neighbours x MAC-like tail x v3/v4/v5 "
                                "header classes) with the transcribed decoder/encoder; for every layout the real decoder accepts without "
                                "keys: encode ok, decode(encode(p)) ok, second encoding byte-identical, packet equal; first re-encoding "
                                "byte-identical to the model's")
        run_c24(out, tier, seed)
    elif prop == "C25":
        out.coverage["rule"] = ("region design checked by TLC; on every sampled sealed datagram (v4/v5 x both AEADs x request/answer x 0-3 "
                                "leading fields x trailing field) every single bit is flipped and every byte of every length word set to "
                                "all 255 other values, decoded with the right key; outcome per region compared with the model's expectation")
        out.assumptions += ["AES-SIV treated as ideal"]
        run_c25(out, tier, seed)
    else:
        out.coverage["rule"] = ("layouts of the Packet model, each truncated at every run boundary -1/0/+1 and with every length field set to "
                                "{0,1,3,4,dl-1,dl+1,65535}, decoded without keys / with a client cipher / with a server key set, result class "
                                "compared with the transcribed decoder (exact unless the model marks the case weak), plus seeded byte "
                                "mutations (no panic) and sealed datagrams with right / wrong / no keys; distinct = distinct (version, "
                                "predicted class, field kinds and declared lengths, total length)")
        run_c23(out, tier, seed)
        cookie_plaintext_stage(out, tier, seed)
    return out


PROPS = ["C24", "C25", "C23"]
_T = "TLA+ wire-grammar model with transcribed decoder/encoder (spec/Packet.tla) enumerated by TLC; every layout concretised and run through the real codec"
MANIFEST = {
    "C24": dict(level="model_checking", technique=_T, design_ref="6.6, 5.3, 7 (Codec and crypto group), 9 F-5", engine="tlc+replay",
                text="Round trip (encode ok, one normalising round, byte-stable afterwards) model-checked on all enumerated layouts and confirmed "
                     "on the real codec for every layout it accepts; re-encoded bytes compared with the transcribed encoder.",
                note="bounded enumeration: <=3 fields + draft id, body lengths around 0..32, 9 field kinds, v3/v4/v5; only key-less decoding; "
                     "known finding F-5"),
    "C25": dict(level="model_checking", technique=_T + "; exhaustive single-bit / length-byte tampering of sealed datagrams", design_ref="6.6, 7",
                engine="tlc+replay",
                text="Region design (associated data, AEAD inputs, length words, padding, trailer) checked on the model; every bit of 32-64 real "
                     "sealed datagrams flipped and every length byte set to all values, decoded with the right key.",
                note="model of the region design is small (9 regions); strength comes from the exhaustive single-fault replay; AEAD ideal; "
                     "multi-byte modifications not explored"),
    "C23": dict(level="exploration", technique=_T, design_ref="6.6, 7", engine="tlc+replay",
                text="Decoder totality and predicted Ok/Err class on layouts, truncations, length edits, three key contexts (the server-key context also with cookie fields that name a key the set holds), seeded mutations.",
                note="lengths up to a few hundred bytes (not 4096); random mutations have only the no-panic oracle"),
}
