"""Checks decided with spec/NtsKe.tla (C29, C28) and spec/KeRecords.tla (C30): NTS key exchange."""
import os, json, random, collections
import vf

CRATE = "ntp_proto"
TEST_NTS = "nts::verif_hook::verif_nts"


def _attribute(out, prop, module, cfgname, rec, fail, history, how, sig_act):
    """Soundness rule 1: a violation of `prop` only if a differing observable lies in prop's cone for that step."""
    fields = set(fail["fields"])
    cones = rec["cones"]
    hit = sorted(p for p, c in cones.items() if fields & set(c))
    detail = {"how": how, "cfg": cfgname, "history": history, "expected": {"post": rec.get("post"), "out": rec.get("out")},
              "observed": fail.get("observed"), "panic": fail.get("panic"), "differing": sorted(fields), "attributed_to": hit}
    if prop in hit:
        sig = "%s:%s:%s:%s" % (module, cfgname, sig_act, ",".join(sorted(fields & set(cones.get(prop, [])))))
        out.violation(sig, detail)
    else:
        out.divergences.append(detail)
        out.notes.append("divergence outside %s's cone (%s/%s, fields %s, attributed to %s)" % (prop, module, cfgname, sorted(fields), hit))


# ------------------------------------------------------------------------------------------------
# C29: connection state machine (MC_NtsKe): (M) invariants, (G) transition tours from every initial state
# ------------------------------------------------------------------------------------------------
def _c29_sig(a):
    if a["t"] == "Close":
        return "Close"
    return "Req[%s,tok=%s,ka=%s,shape=%s]" % (a["kind"], a["tok"], a["ka"], a["shape"])


def c29(out, tier, seed):
    prop = "C29"
    cfgname = "Quick" if tier == "quick" else "Thorough"
    g, mc, inits = vf.collect_graph("MC_NtsKe", "Gen_NtsKe_%s.cfg" % cfgname, workers=4, timeout=1500)
    if mc.violated:
        raise vf.ToolError("model NtsKe/%s violates %s at design level:\n%s" % (cfgname, mc.violated, mc.error_trace[:3000]))
    if not inits:
        raise vf.ToolError("generator printed no INIT state")
    out.add("states", mc.distinct)
    out.add("transitions", mc.generated)
    out.add("initial_states", len(inits))
    rng = random.Random(seed)
    flt = lambda rec: bool(rec["cones"].get(prop))
    # thorough: replay every transition of the model (differences outside C29's cone are reported as notes only)
    full = tier == "thorough" or bool(os.environ.get("VERIF_NTSKE_FULL"))
    tour_flt = (lambda rec: True) if full else flt
    wanted = [i for i, e in enumerate(g.edges) if flt(e[2])]
    if not wanted:
        raise vf.ToolError("vacuous: no transition of NtsKe/%s is constrained by %s" % (cfgname, prop))
    kinds = collections.Counter(g.edges[i][2]["ck"] for i in wanted)
    for need in ("new:FixedKey", "new:Support", "new:Invalid", "keptOpen:KeyExchange"):
        if not kinds.get(need):
            raise vf.ToolError("vacuous: no %s transition in the model" % need)
    # one tour per initial state; an edge is reachable from exactly one initial state (tokens/permits are in the state)
    walks, covered_by_tour = [], set()
    for init in sorted(inits, key=vf.key):
        start = g.ids[vf.key(init)]
        # restrict to the component of this initial state
        comp = _reach(g, start)
        ws = g.tours(init, max_len=12, rng=rng, edge_filter=lambda rec, comp=comp: tour_flt(rec) and g.ids[vf.key(rec["pre"])] in comp)
        for w in ws:
            if w:
                walks.append((init, w))
                covered_by_tour.update(w)
    missing = [i for i in wanted if i not in covered_by_tour]
    if missing:
        raise vf.ToolError("transition tour misses %d constrained transitions" % len(missing))
    wd = vf.workdir("NtsKe_%s" % cfgname)
    wf, rf = os.path.join(wd, "walks_%s.ndjson" % prop), os.path.join(wd, "results_%s.ndjson" % prop)
    vf.write_ndjson(wf, [{"id": n, "init": init, "walk": [{"act": g.edges[e][2]["act"], "post": g.edges[e][2]["post"],
                                                             "out": g.edges[e][2]["out"]} for e in w]}
                         for n, (init, w) in enumerate(walks)])
    vf.run_harness(CRATE, TEST_NTS, {"mode": "replay", "input": wf, "output": rf, "seed": seed})
    results = vf.read_ndjson(rf)
    if len(results) != len(walks):
        raise vf.ToolError("harness returned %d results for %d walks" % (len(results), len(walks)))
    steps, confirmed = 0, set()
    for r in results:
        init, w = walks[r["id"]]
        steps += r["steps_run"]
        ok_upto = r["steps_run"] if r["fail"] is None else r["fail"]["step"]
        confirmed.update(w[:ok_upto])
        if r["fail"] is not None:
            f = r["fail"]
            rec = g.edges[w[f["step"]]][2]
            hist = [{"init": init}] + [g.edges[x][2]["act"] for x in w[:f["step"] + 1]]
            _attribute(out, prop, "NtsKe", "%s/tokens=%s" % (cfgname, init["tokens"]), rec, f, hist, "replay",
                       "%s:%s" % (rec["ck"], _c29_sig(rec["act"])))
    out.add("replayed_steps", steps)
    out.add("replayed_walks", len(walks))
    out.add("model_transitions_constrained_by_property", len(wanted))
    out.add("model_transitions_confirmed_on_impl", len([e for e in confirmed if flt(g.edges[e][2])]))
    out.add("traces_validated_against_impl", 0)
    if walks:
        init, w = walks[0]
        out.sample({"init": init, "walk": [g.edges[e][2]["act"] for e in w[:4]], "expected_out_last": g.edges[w[min(3, len(w) - 1)]][2]["out"]})


def _reach(g, start):
    seen, todo = {start}, [start]
    while todo:
        u = todo.pop()
        for ei in g.out.get(u, ()):
            v = g.edges[ei][1]
            if v not in seen:
                seen.add(v)
                todo.append(v)
    return seen


def run(prop, tier, seed):
    out = vf.Outcome(prop, tier, seed, MANIFEST[prop]["level"])
    if prop == "C29":
        out.coverage["rule"] = ("every transition of the bounded connection model (token lists none/one/two x permit pools x request "
                                "classes x 2 connections) that C29 constrains is covered by a transition tour replayed on the real "
                                "KeyExchangeServer over real TLS sessions, compared after every step")
        out.assumptions += ["TLS 1.3 sessions over in-memory duplex pipes with the repository's test certificates",
                            "permit pool and release-on-return emulate ntpd/src/daemon/keyexchange.rs (semaphore) in the harness",
                            "code observed as compiled for tests (debug assertions, overflow checks)"]
        c29(out, tier, seed)
    else:
        raise vf.ToolError("unknown property %s" % prop)
    return out


PROPS = ["C29"]

MANIFEST = {
    "C29": dict(level="model_checking", engine="tlc+replay", design_ref="6.8, 7 (Key exchange group)",
                technique="TLA+ state machine of a key-exchange connection (spec/NtsKe.tla part 1) model-checked with TLC; every explored "
                          "transition constrained by the property replayed on the real KeyExchangeServer::handle_connection / handle_longterm "
                          "over TLS on tokio duplex pipes (transition tour), answer bytes, handler results and permit pool compared after every step",
                note="bounded model: 2 connections x <=2 (quick) / 3 (thorough) requests, token lists {none, one, two}, permits {0,1} (thorough {0,1,2}), "
                     "request classes kind x token {absent, t1, t2, proper prefix, empty} x keep-alive x {ok, unknown critical record}; "
                     "further pool requests on a kept-open connection are compared but not attributed to C29 (statement is silent)",
                text="On a new connection FixedKey/Support requests are served only with a configured token, otherwise Error(BadRequest), no cookies, "
                     "closed; kept open iff asked and a permit was free; plain KeyExchange on a kept-open connection refused."),
}
