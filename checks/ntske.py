"""Checks decided with spec/NtsKe.tla (C29, C28) and spec/KeRecords.tla (C30): NTS key exchange."""
import os, json, random, collections
import vf

CRATE = "ntp_proto"
TEST_NTS = "nts::verif_hook::verif_nts"


def _attribute(out, prop, module, cfgname, rec, fail, history, how, sig_act):
    """Soundness rule 1: a violation of `prop` only if a differing observable lies in prop's cone for that step."""
    fields = set(fail["fields"])
    cones = rec["cones"]
    hit = sorted(p for p, c in cones.items() if fields & set(c))
    detail = {"how": how, "cfg": cfgname, "history": history, "expected": {"post": rec.get("post"), "out": rec.get("out")},
              "observed": fail.get("observed"), "panic": fail.get("panic"), "differing": sorted(fields), "attributed_to": hit}
    if prop in hit:
        sig = "%s:%s:%s:%s" % (module, cfgname, sig_act, ",".join(sorted(fields & set(cones.get(prop, [])))))
        out.violation(sig, detail)
    else:
        out.divergences.append(detail)
        out.notes.append("divergence outside %s's cone (%s/%s, fields %s, attributed to %s)" % (prop, module, cfgname, sorted(fields), hit))


# ------------------------------------------------------------------------------------------------
# C29: connection state machine (MC_NtsKe): (M) invariants, (G) transition tours from every initial state
# ------------------------------------------------------------------------------------------------
def _c29_sig(a):
    if a["t"] == "Close":
        return "Close"
    return "Req[%s,tok=%s,ka=%s,shape=%s]" % (a["kind"], a["tok"], a["ka"], a["shape"])


def c29(out, tier, seed):
    prop = "C29"
    cfgname = "Quick" if tier == "quick" else "Thorough"
    g, mc, inits = vf.collect_graph("MC_NtsKe", "Gen_NtsKe_%s.cfg" % cfgname, workers=4, timeout=1500)
    if mc.violated:
        raise vf.ToolError("model NtsKe/%s violates %s at design level:\n%s" % (cfgname, mc.violated, mc.error_trace[:3000]))
    if not inits:
        raise vf.ToolError("generator printed no INIT state")
    out.add("states", mc.distinct)
    out.add("transitions", mc.generated)
    out.add("initial_states", len(inits))
    rng = random.Random(seed)
    flt = lambda rec: bool(rec["cones"].get(prop))
    # thorough: replay every transition of the model (differences outside C29's cone are reported as notes only)
    full = tier == "thorough" or bool(os.environ.get("VERIF_NTSKE_FULL"))
    tour_flt = (lambda rec: True) if full else flt
    wanted = [i for i, e in enumerate(g.edges) if flt(e[2])]
    if not wanted:
        raise vf.ToolError("vacuous: no transition of NtsKe/%s is constrained by %s" % (cfgname, prop))
    kinds = collections.Counter(g.edges[i][2]["ck"] for i in wanted)
    for need in ("new:FixedKey", "new:Support", "new:Invalid", "keptOpen:KeyExchange"):
        if not kinds.get(need):
            raise vf.ToolError("vacuous: no %s transition in the model" % need)
    # one tour per initial state; an edge is reachable from exactly one initial state (tokens/permits are in the state)
    walks, covered_by_tour = [], set()
    for init in sorted(inits, key=vf.key):
        start = g.ids[vf.key(init)]
        # restrict to the component of this initial state
        comp = _reach(g, start)
        ws = g.tours(init, max_len=12, rng=rng, edge_filter=lambda rec, comp=comp: tour_flt(rec) and g.ids[vf.key(rec["pre"])] in comp)
        for w in ws:
            if w:
                walks.append((init, w))
                covered_by_tour.update(w)
    missing = [i for i in wanted if i not in covered_by_tour]
    if missing:
        raise vf.ToolError("transition tour misses %d constrained transitions" % len(missing))
    wd = vf.workdir("NtsKe_%s" % cfgname)
    wf, rf = os.path.join(wd, "walks_%s.ndjson" % prop), os.path.join(wd, "results_%s.ndjson" % prop)
    vf.write_ndjson(wf, [{"id": n, "init": init, "walk": [{"act": g.edges[e][2]["act"], "post": g.edges[e][2]["post"],
                                                             "out": g.edges[e][2]["out"]} for e in w]}
                         for n, (init, w) in enumerate(walks)])
    vf.run_harness(CRATE, TEST_NTS, {"mode": "replay", "input": wf, "output": rf, "seed": seed})
    results = vf.read_ndjson(rf)
    if len(results) != len(walks):
        raise vf.ToolError("harness returned %d results for %d walks" % (len(results), len(walks)))
    steps, confirmed = 0, set()
    for r in results:
        init, w = walks[r["id"]]
        steps += r["steps_run"]
        ok_upto = r["steps_run"] if r["fail"] is None else r["fail"]["step"]
        confirmed.update(w[:ok_upto])
        if r["fail"] is not None:
            f = r["fail"]
            rec = g.edges[w[f["step"]]][2]
            hist = [{"init": init}] + [g.edges[x][2]["act"] for x in w[:f["step"] + 1]]
            _attribute(out, prop, "NtsKe", "%s/tokens=%s" % (cfgname, init["tokens"]), rec, f, hist, "replay",
                       "%s:%s" % (rec["ck"], _c29_sig(rec["act"])))
    out.add("replayed_steps", steps)
    out.add("replayed_walks", len(walks))
    out.add("model_transitions_constrained_by_property", len(wanted))
    out.add("model_transitions_confirmed_on_impl", len([e for e in confirmed if flt(g.edges[e][2])]))
    if walks:
        init, w = walks[0]
        out.sample({"init": init, "walk": [g.edges[e][2]["act"] for e in w[:4]], "expected_out_last": g.edges[w[min(3, len(w) - 1)]][2]["out"]})


def c29_trace(out, tier, seed):
    """(T) implementation -> spec: seeded random sessions (3 connections, up to 6 requests each, permit pools 0..2)
    recorded on the real server and re-executed by TLC on Trace_NtsKe."""
    prop = "C29"
    wd = vf.workdir("NtsKe_trace")
    tf = os.path.join(wd, "trace_%s.ndjson" % prop)
    sessions, steps = (120, 20) if tier == "quick" else (1200, 24)
    vf.run_harness(CRATE, TEST_NTS, {"mode": "record", "seed": seed, "sessions": sessions, "steps": steps, "nconns": 3, "max_req": 6,
                                     "output": tf}, timeout=3000)
    events = sum(1 for _ in open(tf))
    mism, done = [], []
    res = vf.run_tlc("Trace_NtsKe", "Trace_NtsKe.cfg", workers=1, timeout=1500, env={"TRACE": tf}, tags=("MISMATCH", "DONE"),
                     line_sink=lambda tag, obj: (mism if tag == "MISMATCH" else done).append(obj), coverage=False, xmx="4g")
    if res.violated:
        raise vf.ToolError("trace spec failed: %s\n%s" % (res.violated, res.error_trace[:2000]))
    if not done or done[-1].get("consumed") != events:
        raise vf.ToolError("trace validation did not consume the whole trace (%s of %d events)\n%s" % (done[-1] if done else None, events, res.stdout[-1500:]))
    if events < 4 * sessions:
        raise vf.ToolError("vacuous trace: %d events for %d sessions" % (events, sessions))
    out.add("traces_validated_against_impl", done[-1].get("behaviours", 0))
    out.add("trace_events", events)
    for m in mism:
        rec = {"act": m["act"], "cones": m["cones"], "post": m["expected"]["st"], "out": m["expected"]["out"], "ck": m["ck"]}
        fail = {"fields": m["fields"], "observed": m["observed"], "panic": m.get("panic")}
        _attribute(out, prop, "NtsKe", "Trace/tokens=%s" % m["pre"]["tokens"], rec, fail, [{"trace": tf, "line": m["line"], "pre": m["pre"]}],
                   "trace", "%s:%s" % (m["ck"], _c29_sig(m["act"])))


def _reach(g, start):
    seen, todo = {start}, [start]
    while todo:
        u = todo.pop()
        for ei in g.out.get(u, ()):
            v = g.edges[ei][1]
            if v not in seen:
                seen.add(v)
                todo.append(v)
    return seen


# ------------------------------------------------------------------------------------------------
# C28: negotiation cases (MC_NtsKeNeg): (M) C28_OnlyMutuallySupported over all cases, (G) every case on real TLS
# ------------------------------------------------------------------------------------------------
def _c28_sig(a, fields):
    if a["t"] == "adv":
        un = [n for n, k, off in (("protocol", "proto", "offP"), ("algorithm", "alg", "offA")) if a["r"][k] not in a[off]]
        return "NtsKeNeg:adv:unoffered=%s:%s" % ("+".join(un) or "none", ",".join(fields))
    return "NtsKeNeg:%s:offP=%s,offA=%s,accepted=%s:%s" % (a["t"], "/".join(a["offP"]), "/".join(a["offA"]),
                                                          "/".join(sorted(a["accepted"])), ",".join(fields))


def c28(out, tier, seed):
    prop = "C28"
    cfgname = "Quick" if tier == "quick" else "Thorough"
    cases = []
    res = vf.run_tlc("MC_NtsKeNeg", "Gen_NtsKeNeg_%s.cfg" % cfgname, workers=1, timeout=1500, tags=("CASE", "INIT"),
                     line_sink=lambda tag, obj: cases.append(obj) if tag == "CASE" else None, coverage=False)
    if res.violated:
        raise vf.ToolError("model NtsKeNeg/%s violates %s at design level:\n%s" % (cfgname, res.violated, res.error_trace[:3000]))
    for c in cases:
        c["act"]["accepted"] = sorted(c["act"].get("accepted", [])) if "accepted" in c["act"] else None
        if c["act"]["accepted"] is None:
            del c["act"]["accepted"]
    cases.sort(key=lambda c: vf.key(c["act"]))
    fam = collections.Counter(c["act"]["t"] for c in cases)
    if min(fam.get(t, 0) for t in ("srv", "cli", "adv")) == 0:
        raise vf.ToolError("vacuous: case families %s" % dict(fam))
    kinds = collections.Counter((c["act"]["t"], c["out"].get("resp", c["out"].get("ok"))) for c in cases)
    for need in (("srv", "keys"), ("srv", "noproto"), ("srv", "noalg"), ("cli", True), ("cli", False), ("adv", True), ("adv", False)):
        if not kinds.get(need):
            raise vf.ToolError("vacuous: no %s case in the model" % (need,))
    out.add("states", res.distinct)
    out.add("transitions", len(cases))
    for t, n in fam.items():
        out.add("cases_" + t, n)
    wd = vf.workdir("NtsKeNeg_%s" % cfgname)
    wf, rf = os.path.join(wd, "cases.ndjson"), os.path.join(wd, "results.ndjson")
    vf.write_ndjson(wf, [{"id": n, "act": c["act"], "out": c["out"]} for n, c in enumerate(cases)])
    vf.run_harness(CRATE, TEST_NTS, {"mode": "neg", "input": wf, "output": rf, "seed": seed}, timeout=3000)
    results = vf.read_ndjson(rf)
    if len(results) != len(cases):
        raise vf.ToolError("harness returned %d results for %d cases" % (len(results), len(cases)))
    confirmed = 0
    for r in results:
        c = cases[r["id"]]
        if r["fail"] is None:
            confirmed += 1
            continue
        f = r["fail"]
        fields = set(f["fields"])
        cone = set(c["cones"][prop])
        detail = {"how": "replay", "case": c["act"], "expected": c["out"], "observed": f.get("observed"), "panic": f.get("panic"),
                  "differing": sorted(fields)}
        if fields & cone:
            out.violation(_c28_sig(c["act"], sorted(fields & cone)), detail)
        else:
            out.divergences.append(detail)
            out.notes.append("divergence outside C28's cone (%s, fields %s)" % (vf.key(c["act"])[:120], sorted(fields)))
    out.add("cases_confirmed_on_impl", confirmed)
    out.add("traces_validated_against_impl", 0)
    out.coverage["exhaustive"] = True
    for t in ("srv", "cli", "adv"):
        c = next(x for x in cases if x["act"]["t"] == t and (x["out"].get("resp") == "keys" or x["out"].get("ok")))
        out.sample({"case": c["act"], "expected": c["out"]})


# ------------------------------------------------------------------------------------------------
# C30: record / message classes (MC_KeRecords) on the real async parsers
# ------------------------------------------------------------------------------------------------
TEST_MSG = "nts::messages::verif_hook::verif_nts_messages"


def _sym(r):
    return "t%d.%s.%s" % (r["t"], "c" if r["crit"] else "n", r["cls"])


def c30(out, tier, seed):
    prop = "C30"
    cfgname = "Quick" if tier == "quick" else "Thorough"
    lines = []
    res = vf.run_tlc("MC_KeRecords", "Gen_KeRecords_%s.cfg" % cfgname, workers=1, timeout=3000, tags=("CASE", "INIT"),
                     line_sink=lambda tag, obj: lines.append(obj) if tag == "CASE" else None, coverage=False)
    if res.violated:
        raise vf.ToolError("model KeRecords/%s violates %s at design level:\n%s" % (cfgname, res.violated, res.error_trace[:3000]))
    cases = {}
    for l in lines:
        if l["f"] == "rec":
            c = {"f": "rec", "recs": l["recs"], "tail": l["tail"], "exp": {"rec": l["rec"]}}
            cases[vf.key([c["f"], c["recs"], c["tail"]])] = c
        else:
            for tail, v in l["v"].items():
                c = {"f": "msg", "recs": l["recs"], "tail": tail, "exp": {"req": v["req"], "resp": v["resp"]}}
                cases[vf.key([c["f"], c["recs"], c["tail"]])] = c       # families overlap: dedup
    cases = [cases[k] for k in sorted(cases)]
    if not cases:
        raise vf.ToolError("TLC enumerated no cases")
    wd = vf.workdir("KeRecords_%s" % cfgname)
    wf, rf = os.path.join(wd, "cases.ndjson"), os.path.join(wd, "results.ndjson")
    vf.write_ndjson(wf, [{"id": n, "f": c["f"], "recs": c["recs"], "tail": c["tail"]} for n, c in enumerate(cases)])
    vf.run_harness(CRATE, TEST_MSG, {"mode": "c30", "input": wf, "output": rf, "seed": seed}, timeout=3000)
    results = vf.read_ndjson(rf)
    if len(results) != len(cases):
        raise vf.ToolError("harness returned %d results for %d cases" % (len(results), len(cases)))
    evaluations, digests, accepted, capped, mism = 0, set(), collections.Counter(), 0, 0
    tails = collections.Counter()
    for r in results:
        c = cases[r["id"]]
        name = "+".join(_sym(x) for x in c["recs"]) + "|" + c["tail"]
        tails[c["tail"]] += 1
        for parser, exp in c["exp"].items():
            o = r[parser]
            evaluations += 1
            bad = [f for f, good in (("panic", False), ("terminates", True), ("bounded", True), ("roundtrip", True)) if o[f] != good]
            detail = {"how": "replay", "parser": parser, "case": {"recs": c["recs"], "tail": c["tail"]}, "expected_verdict": exp, "observed": o}
            if bad:
                out.violation("KeRecords:%s:%s:%s" % (parser, ",".join(bad), name), detail)
            elif o["verdict"] != exp:
                mism += 1
                detail["differing"] = ["verdict"]
                out.divergences.append(detail)
                if mism <= 5:
                    out.notes.append("verdict differs from the transcribed parser (not in C30's cone): %s %s expected %s observed %s" % (parser, name, exp, o["verdict"]))
            if o["verdict"].startswith("ok"):
                accepted[parser] += 1
                digests.add((parser, o["digest"]))
            if parser != "rec" and o["consumed"] == 4096:
                capped += 1
    out.add("verdict_mismatches_outside_cone", mism)
    if min(accepted.get(p, 0) for p in ("rec", "req", "resp")) < 20:
        raise vf.ToolError("vacuous: too few accepted inputs per parser: %s" % dict(accepted))
    if capped < 20 or not all(tails.get(t) for t in ("eom", "eof", "endless", "straddle")):
        raise vf.ToolError("vacuous: the 4096-byte limit was reached only %d times / tails %s" % (capped, dict(tails)))
    out.add("evaluations", evaluations)
    out.add("distinct_nontrivial", len(digests))
    out.add("cases", len(cases))
    out.add("model_sequences", len(lines))
    for p, n in accepted.items():
        out.add("accepted_" + p, n)
    out.add("runs_stopped_by_the_4096_limit", capped)
    out.coverage["exhaustive"] = True
    for c in (cases[len(cases) // 3], cases[-1], next(x for x in cases if x["exp"].get("req") == "ok:FixedKey")):
        out.sample({"recs": [_sym(x) for x in c["recs"]], "tail": c["tail"], "expected_verdicts": c["exp"]})


def run(prop, tier, seed):
    out = vf.Outcome(prop, tier, seed, MANIFEST[prop]["level"])
    if prop == "C29":
        out.coverage["rule"] = ("every transition of the bounded connection model (token lists none/one/two x permit pools x request "
                                "classes x 2 connections) that C29 constrains is covered by a transition tour replayed on the real "
                                "KeyExchangeServer over real TLS sessions, compared after every step")
        out.assumptions += ["TLS 1.3 sessions over in-memory duplex pipes with the repository's test certificates",
                            "permit pool and release-on-return emulate ntpd/src/daemon/keyexchange.rs (semaphore) in the harness",
                            "code observed as compiled for tests (debug assertions, overflow checks)"]
        c29(out, tier, seed)
        c29_trace(out, tier, seed)
    elif prop == "C28":
        out.coverage["rule"] = ("TLC enumerates all offer lists (length <= 2 quick / 3 thorough over 3 protocol and 3 algorithm symbols) x accepted-version "
                                "sets x honest and adversarial well-formed answers and checks C28 on the transcribed choice functions; every case is "
                                "run on the real server / client over a real TLS session; cookies decoded with the real KeySet and compared with "
                                "keying material exported by the harness itself")
        out.assumptions += ["TLS 1.3 sessions over in-memory duplex pipes with the repository's test certificates",
                            "client offer lists other than the three built-in ones are installed by constructing KeyExchangeClient directly",
                            "code observed as compiled for tests (debug assertions, overflow checks)"]
        c28(out, tier, seed)
    elif prop == "C30":
        out.coverage["rule"] = ("TLC enumerates record classes [type 0..14/unknown, critical bit, declared-length-vs-body class] alone and in sequences "
                                "(short sequences over full/core/exact alphabets; all single-symbol replacements/insertions/removals in 4 valid base "
                                "messages) x tails {eom, eof, endless, fill-to-4096, straddle-4096}; each is concretised to bytes and parsed by the real "
                                "async record/request/response parsers from a byte-counting reader with seeded chunking; non-trivial = accepted by "
                                "the parser; distinct = distinct re-serialised bytes per parser")
        out.assumptions += ["round-trip equality of requests/responses is structural (all fields, key bytes) since the types have no PartialEq",
                            "termination = completes within 2e6 polls of a reader that always makes progress"]
        c30(out, tier, seed)
    else:
        raise vf.ToolError("unknown property %s" % prop)
    return out


PROPS = ["C29", "C28", "C30"]

MANIFEST = {
    "C29": dict(level="model_checking", engine="tlc+replay+trace", design_ref="6.8, 7 (Key exchange group)",
                technique="TLA+ state machine of a key-exchange connection (spec/NtsKe.tla part 1) model-checked with TLC; every explored "
                          "transition constrained by the property replayed on the real KeyExchangeServer::handle_connection / handle_longterm "
                          "over TLS on tokio duplex pipes (transition tour), answer bytes, handler results and permit pool compared after every step; seeded random sessions (3 connections, <=6 requests, permits 0..2) validated against the spec by TLC (Trace_NtsKe)",
                note="bounded model: 2 connections x <=2 (quick) / 3 (thorough) requests, token lists {none, one, two}, permits {0,1} (thorough {0,1,2}), "
                     "request classes kind x token {absent, t1, t2, proper prefix, empty} x keep-alive x {ok, unknown critical record}; "
                     "further pool requests on a kept-open connection are compared but not attributed to C29 (statement is silent)",
                text="On a new connection FixedKey/Support requests are served only with a configured token, otherwise Error(BadRequest), no cookies, "
                     "closed; kept open iff asked and a permit was free; plain KeyExchange on a kept-open connection refused."),
    "C28": dict(level="model_checking", engine="tlc+replay", design_ref="6.8, 7 (Key exchange group), 9 (F-7)",
                technique="negotiation transcribed as pure functions in spec/NtsKe.tla part 2 (ServerChoice, ClientAdopt); TLC enumerates every case of "
                          "MC_NtsKeNeg and checks C28_OnlyMutuallySupported; every case replayed over real TLS: real server vs byte-level client, real "
                          "client vs real server, real client vs harness TLS server writing arbitrary well-formed answers; keys compared with the "
                          "harness's own RFC 8915 export and cookies decoded with the real KeySet",
                note="offer lists up to length 2 (quick) / 3 (thorough); adversarial answers: one protocol x one algorithm x cookies {0,1,9} (quick) / 0..9 "
                     "x server/port records; client offer lists beyond the built-in three are injected by direct construction",
                text="Server picks the first accepted protocol and first supported algorithm of the client's lists and issues 8 cookies decoding to the "
                     "TLS-exported keys, or the no-overlap answer and no cookies; client adopts only offered parameters and derives the same keys."),
    "C30": dict(level="exploration", engine="tlc+replay", design_ref="6.8, 7 (Key exchange group)",
                technique="record/message grammar and transcribed parser verdicts in spec/KeRecords.tla; TLC enumerates the input classes (MC_KeRecords) "
                          "and checks the model-level bound; harness concretises every class and runs the real async parsers with a byte-counting, "
                          "chunking reader; oracle: no panic, termination, <= 4096 bytes consumed per message, parse(serialize(v)) == v",
                note="structured exploration, not random bytes: accept/reject verdicts of the transcribed parsers are compared too but reported only as "
                     "notes (the statement does not fix them)",
                text="Parsing any modelled byte stream as record/request/response terminates without panic, consumes at most 4096 bytes of a message; "
                     "anything accepted re-serialises to bytes that parse back to an equal value."),
}
