"""Checks decided with spec/Source.tla: C07 C08 C09 C10 C11 C12 C13 C14 C33."""
import os, json
import vf, sm

CONSTS = {  # name -> constants of MC_Source_<name>.cfg that the harness needs
    "PlainV4":   dict(Mode="PlainV4", MinPoll=4, MaxPoll=6, LocalStratum=3, SrcLocal=False),
    "PlainV5":   dict(Mode="PlainV5", MinPoll=4, MaxPoll=6, LocalStratum=16, SrcLocal=False),
    "PlainAuto": dict(Mode="PlainAuto", MinPoll=4, MaxPoll=4, LocalStratum=16, SrcLocal=False),
    "NtsV4":     dict(Mode="NtsV4", MinPoll=4, MaxPoll=5, LocalStratum=16, SrcLocal=False),
    "NtsV5":     dict(Mode="NtsV5", MinPoll=4, MaxPoll=5, LocalStratum=16, SrcLocal=False),
    "Loop":      dict(Mode="PlainV4", MinPoll=4, MaxPoll=4, LocalStratum=3, SrcLocal=True),
}

# which bounded configurations exercise which property (quick, thorough adds the rest)
QUICK = {
    "C07": ["NtsV4", "NtsV5"],
    "C08": ["PlainV4", "PlainAuto", "NtsV5"],
    "C09": ["PlainV4", "PlainV5", "NtsV4", "PlainAuto"],
    "C10": ["PlainV4", "PlainV5", "PlainAuto"],
    "C11": ["PlainV4", "NtsV4", "PlainAuto", "PlainV5"],
    "C12": ["PlainAuto", "PlainV4", "NtsV5"],
    "C13": ["NtsV4", "NtsV5"],
    "C14": ["NtsV4", "NtsV5", "PlainV5"],
    "C33": ["Loop", "PlainV4"],
}
ALL = ["PlainV4", "PlainV5", "PlainAuto", "NtsV4", "NtsV5", "Loop"]

# random-session configurations for trace validation (wider than the bounded model)
TRACE_CFGS = {
    "PlainV4":   dict(Mode="PlainV4", MinPoll=4, MaxPoll=10, LocalStratum=16, SrcLocal=False, init_stash=[]),
    "PlainV5":   dict(Mode="PlainV5", MinPoll=3, MaxPoll=17, LocalStratum=16, SrcLocal=False, init_stash=[]),
    "PlainAuto": dict(Mode="PlainAuto", MinPoll=4, MaxPoll=10, LocalStratum=16, SrcLocal=False, init_stash=[]),
    "NtsV4":     dict(Mode="NtsV4", MinPoll=4, MaxPoll=10, LocalStratum=16, SrcLocal=False,
                      init_stash=[(i + 1) * 2048 + 104 for i in range(8)]),
    "NtsV5":     dict(Mode="NtsV5", MinPoll=0, MaxPoll=12, LocalStratum=16, SrcLocal=False,
                      init_stash=[(i + 1) * 2048 + 100 for i in range(8)]),
    "Loop":      dict(Mode="PlainV4", MinPoll=4, MaxPoll=6, LocalStratum=4, SrcLocal=True, init_stash=[]),
}


class Source(sm.SM):
    module = "Source"
    mc_module = "MC_Source"
    trace_module = "Trace_Source"
    crate = "ntp_proto"
    test = "source::verif_hook::verif_source"

    def configs(self, prop, tier):
        if tier == "quick":
            return QUICK[prop]
        # thorough: every configuration in which the property constrains something (C07 and C13 speak about NTS only)
        return [c for c in ALL if not (prop in ("C07", "C13") and not CONSTS[c]["Mode"].startswith("Nts"))]

    def harness_cfg(self, cfgname, init_state):
        c = dict(CONSTS[cfgname])
        c["init_stash"] = init_state.get("stash", [])
        return c

    def act_sig(self, a):
        if a["t"] == "Timer":
            return "Timer"
        if a["t"] == "Tick":
            return "Tick"
        if a["t"] == "Init":
            return "Init"
        p = a["p"]
        keys = ["ver", "seal", "id", "stratum", "code", "authnak", "mode", "parse", "ua", "ue", "uu", "marker"]
        s = ",".join("%s=%s" % (k, p[k]) for k in keys)
        if p["ver"] == 5:
            s += ",poll=%s" % ("NEVER" if p["poll"] == 127 else p["poll"])
        s += ",cookies=%d/%d/%d" % (len(p["cEnc"]), len(p["cAuth"]), len(p["cUnt"]))
        return "Recv[%s]" % s

    def trace_one(self, out, prop, tier, seed, name):
        wd = vf.workdir("Source_trace")
        cfg = TRACE_CFGS[name]
        tf = os.path.join(wd, "trace_%s_%s.ndjson" % (name, prop))
        sessions, steps = (40, 120) if tier == "quick" else (600, 200)
        job = {"mode": "record", "cfgs": [cfg], "seed": seed, "sessions": sessions, "steps": steps, "output": tf}
        vf.run_harness(self.crate, self.test, job)
        events = sum(1 for _ in open(tf))
        cf = os.path.join(wd, "Trace_Source_%s_%s.cfg" % (name, prop))
        with open(cf, "w") as f:
            f.write("CONSTANTS\n  Mode = \"%s\"\n  MinPoll = %d\n  MaxPoll = %d\n  LocalStratum = %d\n  SrcLocal = %s\n" % (
                cfg["Mode"], cfg["MinPoll"], cfg["MaxPoll"], cfg["LocalStratum"], "TRUE" if cfg["SrcLocal"] else "FALSE"))
            f.write("INIT TraceInit\nNEXT TraceNext\nCHECK_DEADLOCK FALSE\n")
        mism, done = [], []

        def sink(tag, obj):
            (mism if tag == "MISMATCH" else done).append(obj)
        res = vf.run_tlc("Trace_Source", cf, workers=1, timeout=1500, env={"TRACE": tf}, tags=("MISMATCH", "DONE"),
                         line_sink=sink, coverage=False, xmx="4g", name="Trace_Source_" + name)
        if res.violated:
            raise vf.ToolError("trace spec failed: %s\n%s" % (res.violated, res.error_trace[:2000]))
        if not done or done[-1].get("consumed") != events:
            raise vf.ToolError("trace validation did not consume the whole trace (%s of %d events)\n%s" % (
                done[-1] if done else None, events, res.stdout[-1500:]))
        out.add("traces_validated_against_impl", done[-1].get("behaviours", 0))
        out.add("trace_events", events)
        for m in mism:
            rec = {"act": m["act"], "cones": m["cones"], "post": m["expected"]["st"], "out": m["expected"]["out"]}
            fail = {"fields": m["fields"], "observed": m["observed"], "panic": m.get("panic")}
            self.attribute(out, prop, name, rec, fail, [{"trace": tf, "line": m["line"], "pre": m.get("pre")}], "trace")


def size_domain(out, prop, tier, seed):
    """C14 (and the placeholder clause of C13) over the whole stated domain: every cookie length 0..1024 x every fill
    level x both NTS versions; TLC checks the invariant on the model and prints the expected request, the harness
    builds a real source holding such cookies and compares the real encoder's output."""
    s = Source()
    for mode in ["NtsV4", "NtsV5"]:
        rows = []

        def sink(tag, obj):
            rows.append(obj)
        res = vf.run_tlc("MC_SourceSize", "MC_SourceSize_%s.cfg" % mode, workers=8, timeout=900, tags=("SIZE",), line_sink=sink, coverage=False)
        if res.violated:
            raise vf.ToolError("size model violates %s at design level:\n%s" % (res.violated, res.error_trace[:2000]))
        out.add("states", res.distinct)
        out.add("transitions", res.generated)
        if tier == "quick":   # every 4th length plus everything near the boundaries of the margin computation
            rows = [r for r in rows if r["clen"] % 4 == seed % 4 or r["clen"] < 40 or 88 <= r["clen"] <= 108 or 340 <= r["clen"] <= 380 or 700 <= r["clen"] <= 740 or r["clen"] > 1000]
        wd = vf.workdir("Source_size")
        wf = os.path.join(wd, "walks_%s_%s.ndjson" % (mode, prop))
        rf = os.path.join(wd, "results_%s_%s.ndjson" % (mode, prop))
        walks = [{"id": n, "init_stash": [r["clen"]] * r["fill"],
                  "walk": [{"act": {"t": "Timer", "desired": 4}, "post": r["post"], "out": r["out"]}]} for n, r in enumerate(rows)]
        vf.write_ndjson(wf, walks)
        cfg = dict(Mode=mode, MinPoll=4, MaxPoll=10, LocalStratum=16, SrcLocal=False, init_stash=[])
        vf.run_harness(s.crate, s.test, {"mode": "replay", "cfg": cfg, "input": wf, "output": rf, "seed": seed})
        results = vf.read_ndjson(rf)
        cones = {"C14": ["panic", "out.len", "out.actions"], "C13": ["out.cookie", "out.placeholders", "stash"]}
        for r in results:
            if r["fail"] is not None:
                w = walks[r["id"]]
                rec = {"act": {"t": "Timer"}, "cones": cones, "post": w["walk"][0]["post"], "out": w["walk"][0]["out"]}
                s.attribute(out, prop, "%s:clen=%d:fill=%d" % (mode, rows[r["id"]]["clen"], rows[r["id"]]["fill"]), rec, r["fail"],
                            [{"init_stash": w["init_stash"]}, w["walk"][0]["act"]], "replay")
        out.add("size_cases_replayed", len(results))
        out.sample({"size_case": {"mode": mode, "clen": rows[-1]["clen"], "fill": rows[-1]["fill"], "expected": rows[-1]["out"]}})


class Stash(sm.SM):
    """spec/Stash.tla: the cookie jar with explicit identities, replayed on the real CookieStash."""
    module = "Stash"
    mc_module = "Stash"
    crate = "ntp_proto"
    test = "cookiestash::verif_hook::verif_stash"

    def configs(self, prop, tier):
        return ["main"]

    def harness_cfg(self, cfgname, init_state):
        return {}

    def act_sig(self, a):
        return a["t"]


class Assoc(sm.SM):
    """spec/Assoc.tla: the composition client association || honest server || rotating cookie keys || lossy,
    duplicating, reordering network, replayed on the real NtpSource + Server + KeySetProvider."""
    module = "Assoc"
    mc_module = "Assoc"
    crate = "ntp_proto"
    test = "source::verif_hook::assoc::verif_assoc"

    def configs(self, prop, tier):
        return ["Small"]

    def harness_cfg(self, cfgname, init_state):
        return dict(Mode="NtsV5" if cfgname.endswith("V5") else "NtsV4", MinPoll=4, MaxPoll=4, LocalStratum=16, SrcLocal=False, init_stash=[],
                    History=0, MaxGen=1, MaxNet=1, CLen=104)

    def act_sig(self, a):
        if a["t"] in ("SrvRecv", "CliRecv"):
            m = a["m"]
            return "%s[%s,age=%s,n=%s,keep=%s]" % (a["t"], m["kind"], m["age"], m["n"], a["keep"])
        return a["t"]


def assoc_stage(out, prop, tier, seed):
    a = Assoc()
    a.model_and_replay(out, prop, tier, seed, "Small", max_len=80)
    # liveness of the composition under the timeliness assumption (and, thorough, the larger safety model)
    res = vf.run_tlc("Assoc", "Live_Assoc_Small.cfg", workers=4, timeout=900, coverage=False)
    if res.violated:
        raise vf.ToolError("Assoc liveness fails on the model: %s\n%s" % (res.violated, res.error_trace[:1500]))
    out.add("states", res.distinct)
    out.add("transitions", res.generated)
    if tier == "thorough":
        a.model_and_replay(out, prop, tier, seed, "SmallV5", max_len=80)     # the same composition over NTPv5
        res = vf.run_tlc("Assoc", "MC_Assoc_V4.cfg", workers=8, timeout=3000, coverage=False)
        if res.violated:
            raise vf.ToolError("Assoc (V4 model) violates %s at design level" % res.violated)
        out.add("states", res.distinct)
        out.add("transitions", res.generated)


def advertisement_stage(out, prop, tier, seed):
    """C33, advertisement clause (spec/SysSnapshot.tla): TLC enumerates lists of used sources with the expected advertised
    stratum / reference id; each is run on the real NtpManager."""
    cases = []
    res = vf.run_tlc("SysSnapshot", "SysSnapshot.cfg", workers=1, timeout=600, tags=("ACASE",), line_sink=lambda t, o: cases.append(o), coverage=False)
    if res.violated or not cases:
        raise vf.ToolError("SysSnapshot: %s" % (res.violated or "no cases"))
    cases.sort(key=vf.key)
    # the advertisement follows the sources' CURRENT reports: every case is followed, on the same NtpManager and with the
    # same selection, by another enumerated case of the same shape (types, reported or not, local stratum) but other strata
    shape = lambda c: (c["local"], tuple((x["ty"], x["snap"]) for x in c["list"]))
    groups = {}
    for c in cases:
        groups.setdefault(shape(c), []).append(c)
    rng = __import__("random").Random(seed)
    for g in groups.values():
        for k, c in enumerate(g):
            others = [d for d in g if d["expect"] != c["expect"]] or [d for d in g if d is not c]
            if others:
                d = others[rng.randrange(len(others))]
                c["then"] = {"list": d["list"], "expect": d["expect"]}
    wd = vf.workdir("SysSnapshot")
    inp, outp = os.path.join(wd, "cases.ndjson"), os.path.join(wd, "results.ndjson")
    vf.write_ndjson(inp, cases)
    vf.run_harness("ntp_proto", "system::verif_hook::verif_system", {"input": inp, "output": outp, "seed": seed})
    results = vf.read_ndjson(outp)
    if len(results) != len(cases):
        raise vf.ToolError("SysSnapshot: %d results for %d cases" % (len(results), len(cases)))
    for r in results:
        if r["fields"]:
            c = cases[r["id"]]
            sig = "SysSnapshot:local=%d:[%s]:%s" % (c["local"], " ".join("%s/%s%s" % (x["ty"], x["stratum"], "" if x["snap"] else "?") for x in c["list"]),
                                                     ",".join(sorted(r["fields"])))
            out.violation(sig, {"case": c, "observed": r["observed"]})
    out.add("advertisement_cases_confirmed", len(results))
    out.add("advertisement_cases_followed_by_changed_reports", sum(1 for c in cases if "then" in c))
    out.add("states", res.distinct)
    out.add("transitions", len(cases))
    out.sample({"advertisement_case": cases[len(cases) // 2]})


def filter_poll_stage(out, prop, tier, seed):
    """C10, last sentence: the clock filter's own desired poll interval stays within the configured limits along the
    measurement-history shapes of spec/FilterShapes.tla (eight poll configurations with 0 <= min <= initial <= max <= 17),
    on the real KalmanSourceController with the steering fed back."""
    shapes = []
    for cfg in ["quick" if tier == "quick" else "big", "const"]:
        vf.run_tlc("FilterShapes", "Gen_FilterShapes_%s.cfg" % cfg, workers=8, timeout=1500, tags=("EDGE",),
                   line_sink=lambda tag, obj: shapes.append(obj), coverage=False)
    shapes.sort(key=vf.key)
    if tier == "quick":
        shapes = [x for k, x in enumerate(shapes) if k % 4 == seed % 4]
    if not shapes:
        raise vf.ToolError("FilterShapes enumerated nothing")
    wd = vf.workdir("FilterShapes_poll")
    inp, outp = os.path.join(wd, "shapes.ndjson"), os.path.join(wd, "results.ndjson")
    vf.write_ndjson(inp, shapes)
    vf.run_harness("ntp_proto", "algorithm::kalman::verif_hook::verif_kalman", {"mode": "filter", "input": inp, "output": outp, "seed": seed}, timeout=1500)
    results = vf.read_ndjson(outp)
    if len(results) != len(shapes):
        raise vf.ToolError("filter harness returned %d results for %d shapes" % (len(results), len(shapes)))
    moved = 0
    for sh, r in zip(shapes, results):
        p = r["poll"]
        if p["seen_lo"] <= p["seen_hi"] and p["seen_lo"] != p["seen_hi"]:
            moved += 1
        if not p["ok"]:
            out.violation("FilterShapes:desired-poll-outside-limits:min=%d,max=%d" % (p["min"], p["max"]), {"shape": sh, "poll": p})
    out.add("filter_histories_checked_for_desired_poll", len(results))
    out.add("filter_histories_where_desired_poll_moved", moved)
    if moved == 0:
        raise vf.ToolError("vacuous: the filter never changed its desired poll interval")


def reach_lemma(out):
    res = vf.run_tlc("Reach", "Reach.cfg", workers=2, timeout=300, coverage=False)
    if res.violated:
        raise vf.ToolError("Reach refinement lemma fails: %s" % res.violated)
    out.add("states", res.distinct)
    out.add("transitions", res.generated)


# C14 on NTPv5: the poll request carries a reference-id chunk request whose offset comes from the transfer state of
# spec/Bloom.tla (n = 32). A real NtpSource is driven through whole transfers against conforming, lossy and
# non-conforming (short chunk) servers; every request must be built (no panic, a datagram that fits the buffer).
V5_REQUEST_CASES = [
    dict(filters=["none"], switch_at=0, exchanges=70, drop_every=0, short_every=0, short_len=0),
    dict(filters=["none"], switch_at=0, exchanges=70, drop_every=4, short_every=0, short_len=0),
] + [dict(filters=["none"], switch_at=0, exchanges=110, drop_every=0, short_every=every, short_len=ln)
     for ln in (1, 3, 4, 8, 12, 15) for every in (1000, 7)] + [
    dict(filters=["half"], switch_at=0, exchanges=110, drop_every=5, short_every=3, short_len=8),
    dict(filters=["none"], switch_at=0, exchanges=80, drop_every=0, short_every=1, short_len=0),
]


def v5_request_stage(out, prop, tier, seed):
    wd = vf.workdir("Source_v5req")
    rf = os.path.join(wd, "v5req_%s.ndjson" % prop)
    cases = V5_REQUEST_CASES if tier == "quick" else V5_REQUEST_CASES * 4
    vf.run_harness("ntp_proto", "packet::v5::server_reference_id::verif_hook::verif_bloom",
                   {"mode": "source", "seed": seed, "cases": cases, "output": rf})
    rows = vf.read_ndjson(rf)
    if len(rows) != len(cases):
        raise vf.ToolError("v5 request scenario returned %d rows for %d cases" % (len(rows), len(cases)))
    built = short = 0
    for r in rows:
        case = r["case"]
        name = "short%s/%s,drop%s" % (case["short_len"], case["short_every"], case["drop_every"])
        if r.get("panic"):
            out.violation("Source:v5-request[%s]:panic" % name,
                          {"how": "v5-request", "case": case, "panic": r["panic"], "exchange": r.get("exchange")})
            continue
        if r.get("error"):
            if r["error"] == "no request sent":
                # a reset instead of a request is allowed by the statement; anything else cannot be judged
                out.notes.append("v5 request scenario %s: no request at exchange %s" % (name, r.get("exchange")))
                continue
            raise vf.ToolError("v5 request scenario could not run: %s" % r["error"])
        built += len(r["rows"])
        short += sum(1 for x in r["rows"] if x.get("short"))
    if (built == 0 or short == 0) and not out.violations:
        raise vf.ToolError("vacuous v5 request scenario (built=%d short=%d)" % (built, short))
    out.add("v5_poll_requests_built_along_bloom_transfers", built)
    out.add("v5_short_chunk_answers_injected", short)


def run(prop, tier, seed):
    out = vf.Outcome(prop, tier, seed, "model_checking")
    out.coverage["rule"] = ("every transition of the bounded Source model whose cone for this property is non-empty is covered by a "
                            "transition tour replayed on the real NtpSource; random sessions are validated by Trace_Source")
    out.assumptions += ["AES-SIV treated as ideal", "code observed as compiled for tests (debug assertions, overflow checks)",
                        "Bloom-filter clause of C33 is covered by Bloom.tla"]
    s = Source()
    for cfg in s.configs(prop, tier):
        s.model_and_replay(out, prop, tier, seed, cfg)
    for cfg in s.configs(prop, tier):
        s.trace_one(out, prop, tier, seed, cfg)
    if prop in ("C14", "C13"):
        size_domain(out, prop, tier, seed)
    if prop == "C14":
        v5_request_stage(out, prop, tier, seed)
    if prop == "C13":
        Stash().model_and_replay(out, prop, tier, seed, "main", max_len=40)
    if prop in ("C13", "C08"):
        assoc_stage(out, prop, tier, seed)
    if prop == "C11":
        reach_lemma(out)
    if prop == "C33":
        advertisement_stage(out, prop, tier, seed)
    if prop == "C10":
        filter_poll_stage(out, prop, tier, seed)
    return out


PROPS = ["C07", "C08", "C09", "C10", "C11", "C12", "C13", "C14", "C33"]

_T = "TLA+ state machine (spec/Source.tla) model-checked with TLC; every explored transition replayed on the real NtpSource (transition tour); random sessions validated against the spec by TLC (Trace_Source)"
_N = ("bounded model: 5 association modes + loop configuration, 2-3 poll levels, <=2 cookies per answer, ~100 datagram classes; "
      "conformance only on behaviours replayed/recorded; cipher treated as ideal; code observed as compiled for tests")
MANIFEST = {p: dict(level="model_checking", technique=_T, note=_N, design_ref="6.1, 7 (Source group)", engine="tlc+replay+trace",
                    text=t) for p, t in {
    "C07": "All unauthenticated / unbound datagram classes (other key, tampered, unsealed, wrong uid, cookies outside the encrypted part, forged v5 NAK-flagged KISS) in every reachable state of the NTS models leave state and outputs unchanged, on the model and on the real source.",
    "C08": "Measurement delivered iff fresh matching well-formed time answer; replays, stale ids, expired window (incl. the closing instant), cross-version answers enumerated in every reachable state.",
    "C09": "RATE/DENY/RSTR/NTSN/unknown KISS handling for plain and NTS sources in every reachable state; poll after RATE.",
    "C10": "Sent poll exponent within [min, max(max, server-requested)] and timer jitter interval checked on every Timer transition; wide poll ranges in recorded traces.",
    "C11": "Reset/Demobilize exactly when unreachable (3 start-up polls / 8 polls), reported missed polls = polls since last answer; Reach.tla relates the counter abstraction to the shift register.",
    "C12": "Full upgrade state machine (12 protocol states x answer classes x timers) enumerated and replayed.",
    "C13": "Oldest-first, once, newest-eight, placeholders = missing (cookie identities checked in traces, by position in replay).",
    "C14": "Request size function of the spec equals the real encoder's output length on every Timer transition; <=1024 or Reset; panics are data.",
    "C33": "usable flag = stratum/loop/reachability predicate on every Timer/Recv transition incl. reference-id loop and own-address source.",
}.items()}
