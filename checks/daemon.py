"""Checks of the daemon task group: C35 (Spawner.tla, part Pool), C36 (Spawner.tla, parts Pacer + Standard),
C40 (SockSample.tla), C39 (ConfigThresholds.tla), C38 (Framing.tla)."""
import os, json, random, re
import vf

PROPS = []
MANIFEST = {}
_RUN = {}


def key(o):
    return json.dumps(o, sort_keys=True, separators=(",", ":"))


# --------------------------------------------------------------------------------------------
# helpers shared by the properties of this module
# --------------------------------------------------------------------------------------------
def tours_with_terminals(g, init, is_terminal, max_len, rng):
    """Transition tour in which edges satisfying is_terminal() may only be the LAST step of a walk
    (the implementation is known / expected to leave the specification there).  Returns (walks, unreached)."""
    g2 = vf.Graph()
    sink = {"__sink__": True}
    for (_, _, rec) in g.edges:
        r = {"pre": rec["pre"], "post": sink if is_terminal(rec) else rec["post"]}
        g2.add(r)
    walks = g2.tours(init, max_len=max_len, rng=rng)
    covered = set(e for w in walks for e in w)
    unreached = [i for i in range(len(g.edges)) if i not in covered]
    return walks, unreached


def replay_walks(crate, test, cfg, rows, wd, name, seed, extra=None):
    wf = os.path.join(wd, "walks_%s.ndjson" % name)
    rf = os.path.join(wd, "results_%s.ndjson" % name)
    vf.write_ndjson(wf, rows)
    job = {"mode": "replay", "cfg": cfg, "input": wf, "output": rf, "seed": seed}
    if extra:
        job.update(extra)
    vf.run_harness(crate, test, job)
    res = vf.read_ndjson(rf)
    if len(res) != len(rows):
        raise vf.ToolError("harness returned %d results for %d walks" % (len(res), len(rows)))
    return {r["id"]: r for r in res}


def tlc_trace_json(res):
    """States of a TLC error trace printed through `ALIAS Alias == [json |-> ToJson(..)]`."""
    out = []
    for m in re.finditer(r'^(?:/\\ )?json = "(.*)"$', res.stdout, re.M):
        out.append(json.loads(m.group(1).replace('\\"', '"').replace("\\\\", "\\")))
    return out


def walk_rows(g, walks):
    return [{"id": n, "walk": [{"act": g.edges[e][2]["act"], "post": g.edges[e][2]["post"], "out": g.edges[e][2]["out"]}
                               for e in w]} for n, w in enumerate(walks)]


# --------------------------------------------------------------------------------------------
# C35  pool bookkeeping
# --------------------------------------------------------------------------------------------
POOL_TEST = "daemon::spawn::pool::verif_hook::verif_pool"
SIG_F8 = "Spawner:Pool:two-active-sources-for-one-address"
POOL_CFGS = {  # Gen/MC/CE configuration suffix -> constants the harness needs
    "C1": dict(Count=1, Ignore=[4]), "C2": dict(Count=2, Ignore=[4]), "C3": dict(Count=3, Ignore=[4]),
    "T3": dict(Count=3, Ignore=[5]),
    # two ignored addresses, configured in descending order (the list is used as written in the configuration file)
    "I2": dict(Count=2, Ignore=[3, 1]),
}
POOL_TRACE = {  # configurations of the random sessions validated by Trace_SpawnerPool
    "W4": dict(Count=4, Ignore=[8, 2, 5], NAddr=8, MaxAns=6),
    "W2": dict(Count=2, Ignore=[3], NAddr=5, MaxAns=4),
    "W6": dict(Count=6, Ignore=[], NAddr=9, MaxAns=8),
}


def pool_act_sig(a):
    if a["t"] == "TrySpawn":
        return "TrySpawn[%s]" % ("fail" if a["fail"] else ",".join(str(x) for x in a["ans"]))
    if a["t"] == "Removed":
        return "Removed[%s,%s]" % (a.get("id", "-"), a["reason"])
    return a["t"]


def has_dup_addr(st):
    addrs = [p["addr"] for p in st.get("active", [])]
    return len(addrs) != len(set(addrs))


def pool_witness(out, seed, cfgname, kind):
    """TLC must find a counterexample to C35_Distinct on the bookkeeping AS CODED (design-level finding);
    the counterexample is then executed on the real PoolSpawner.  Returns True iff the real spawner ends
    up with two active sources for one address."""
    res = vf.run_tlc("MC_SpawnerPool", "CE_SpawnerPool_%s_%s.cfg" % (kind, cfgname), workers=1, timeout=600,
                     tags=(), coverage=False)
    if "C35_DistinctInv" not in res.violated:
        raise vf.ToolError("the as-coded pool model no longer violates C35_Distinct (%s/%s): transcription changed?" % (kind, cfgname))
    tr = tlc_trace_json(res)
    if len(tr) < 2 or not has_dup_addr(tr[-1]["st"]):
        raise vf.ToolError("cannot read TLC's counterexample for the as-coded pool model")
    out.add("design_level_counterexamples_found_by_tlc", 1)
    rows = [{"id": 0, "walk": [{"act": s["act"], "post": s["st"], "out": {}} for s in tr[1:]]}]
    wd = vf.workdir("SpawnerPool_%s" % cfgname)
    r = replay_walks("ntpd", POOL_TEST, POOL_CFGS[cfgname], rows, wd, "witness_%s" % kind, seed, extra={"loose": True})[0]
    final = r["final"]["st"]
    acts = [s["act"] for s in tr[1:]]
    if has_dup_addr(final):
        out.violation(SIG_F8, {"how": "TLC counterexample of the as-coded model, executed on the real PoolSpawner",
                               "cfg": cfgname, "dns_answers": "any" if kind == "Any" else "no address repeated within an answer",
                               "history": acts, "model_final": tr[-1]["st"], "observed_final": final})
        out.sample({"finding": "F-8", "history": [pool_act_sig(a) for a in acts], "observed_active": final["active"]})
        return True
    out.notes.append("as-coded counterexample (%s/%s) does not reproduce on the implementation: final %s" % (kind, cfgname, key(final)))
    return False


def pool_replay(out, seed, cfgname, f8_real):
    g, mc, inits = vf.collect_graph("MC_SpawnerPool", "Gen_SpawnerPool_%s.cfg" % cfgname, workers=8, timeout=1500)
    if mc.violated:
        raise vf.ToolError("intended pool model violates %s at design level:\n%s" % (mc.violated, mc.error_trace[:3000]))
    out.add("states", mc.distinct)
    out.add("transitions", mc.generated)
    if not inits or not g.edges:
        raise vf.ToolError("generator printed nothing")
    for t in ("TrySpawn", "Removed"):
        if not any(e[2]["act"]["t"] == t for e in g.edges):
            raise vf.ToolError("vacuous: action %s never taken" % t)
    if not any(e[2]["out"]["creates"] for e in g.edges):
        raise vf.ToolError("vacuous: no source ever created in the model")
    rng = random.Random(seed)
    walks, unreached = tours_with_terminals(g, inits[0], lambda rec: rec["dev"], 40, rng)
    wd = vf.workdir("SpawnerPool_%s" % cfgname)
    res = replay_walks("ntpd", POOL_TEST, POOL_CFGS[cfgname], walk_rows(g, walks), wd, "C35", seed)
    confirmed = set()
    steps = 0
    for n, w in enumerate(walks):
        r = res[n]
        steps += r["steps_run"]
        f = r["fail"]
        upto = r["steps_run"] if f is None else f["step"]
        confirmed.update(w[:upto])
        if f is None:
            continue
        rec = g.edges[w[f["step"]]][2]
        hist = [g.edges[x][2]["act"] for x in w[:f["step"] + 1]]
        detail = {"how": "replay", "cfg": cfgname, "history": hist, "expected": {"post": rec["post"], "out": rec["out"]},
                  "observed": f.get("observed"), "panic": f.get("panic"), "differing": f["fields"]}
        obs = f.get("observed") or {}
        if rec["dev"] and not f.get("panic") and obs.get("st") == rec["coded"]["post"] and obs.get("out") == rec["coded"]["out"]:
            # exactly what the as-coded variant predicts: the missing de-duplication
            out.add("steps_where_impl_keeps_duplicate_known_addresses", 1)
            if f8_real:
                detail["explained_by"] = "known_ips is not de-duplicated (F-8)"
                out.violation(SIG_F8, detail)
            else:
                out.violation("Spawner:Pool:%s:%s:%s" % (cfgname, pool_act_sig(rec["act"]), ",".join(f["fields"])), detail)
        else:
            out.violation("Spawner:Pool:%s:%s:%s" % (cfgname, pool_act_sig(rec["act"]), ",".join(f["fields"])), detail)
    out.add("replayed_steps", steps)
    out.add("replayed_walks", len(walks))
    out.add("model_transitions_constrained_by_property", len(g.edges))
    out.add("model_transitions_confirmed_on_impl", len(confirmed))
    out.add("model_transitions_where_as_coded_variant_differs", sum(1 for e in g.edges if e[2]["dev"]))
    out.add("model_transitions_only_reachable_through_such_steps", len(unreached))
    if walks:
        w = walks[0][:5]
        out.sample({"cfg": cfgname, "walk_prefix": [pool_act_sig(g.edges[e][2]["act"]) for e in w],
                    "expected_after_last": g.edges[w[-1]][2]["post"]})


def pool_trace(out, tier, seed, name):
    cfg = POOL_TRACE[name]
    wd = vf.workdir("SpawnerPool_trace")
    tf = os.path.join(wd, "trace_%s.ndjson" % name)
    sessions, steps = (30, 80) if tier == "quick" else (400, 150)
    vf.run_harness("ntpd", POOL_TEST, {"mode": "record", "cfg": cfg, "seed": seed, "sessions": sessions, "steps": steps, "output": tf})
    events = sum(1 for _ in open(tf))
    cf = os.path.join(wd, "Trace_SpawnerPool_%s.cfg" % name)
    with open(cf, "w") as f:
        f.write("CONSTANTS\n  W = 4\n  Count = %d\n  Ignore = {%s}\n" % (cfg["Count"], ", ".join(str(x) for x in cfg["Ignore"])))
        f.write("INIT TraceInit\nNEXT TraceNext\nCHECK_DEADLOCK FALSE\n")
    lines = {"MISMATCH": [], "DONE": [], "DEV": [], "BAD": []}
    res = vf.run_tlc("Trace_SpawnerPool", cf, workers=1, timeout=1500, env={"TRACE": tf}, tags=tuple(lines),
                     line_sink=lambda tag, obj: lines[tag].append(obj), coverage=False, xmx="4g", name="Trace_SpawnerPool_" + name)
    if res.violated:
        raise vf.ToolError("trace spec failed: %s\n%s" % (res.violated, res.error_trace[:2000]))
    done = lines["DONE"]
    if not done or done[-1].get("consumed") != events:
        raise vf.ToolError("trace validation did not consume the whole trace (%s of %d events)\n%s" % (
            done[-1] if done else None, events, res.stdout[-1500:]))
    out.add("traces_validated_against_impl", done[-1].get("behaviours", 0))
    out.add("trace_events", events)
    out.add("trace_steps_where_impl_keeps_duplicate_known_addresses", len(lines["DEV"]))
    for m in lines["BAD"]:
        what = sorted(m["what"])
        d = {"how": "trace", "cfg": name, "trace": tf, "line": m["line"], "pre": m["pre"], "act": m["act"], "observed": m["observed"]}
        for wname in what:
            out.violation("Spawner:Pool:%s" % wname, d)
    for m in lines["DEV"][:50]:
        out.violation(SIG_F8, {"how": "trace", "cfg": name, "trace": tf, "line": m["line"], "pre": m["pre"], "act": m["act"],
                               "expected": m["expected"], "observed": m["observed"], "explained_by": "known_ips is not de-duplicated (F-8)"})
    for m in lines["MISMATCH"]:
        out.violation("Spawner:Pool:trace:%s:%s:%s" % (name, m["act"]["t"], ",".join(sorted(m["fields"]))),
                      {"how": "trace", "cfg": name, "trace": tf, "line": m["line"], "pre": m.get("pre"), "act": m["act"],
                       "expected": m["expected"], "observed": m["observed"], "panic": m.get("panic")})


def run_c35(out, tier, seed):
    out.coverage["rule"] = ("TLC checks C35 on the intended (de-duplicating) pool bookkeeping and exhibits the counterexample on the "
                            "bookkeeping as coded; every transition of the intended model is replayed on the real PoolSpawner with "
                            "scripted DNS (steps where the as-coded variant differs end a walk); random sessions are validated by "
                            "Trace_SpawnerPool")
    out.assumptions += ["DNS answers scripted through the crate's cfg(test) hardcoded resolver; lookup failure = resolver error on an invalid host name",
                        "NTS pool spawner (needs a live TLS key-exchange server per spawn) is not exercised",
                        "addresses differ in their IP part only (one port)"]
    cfgs = ["C2", "C3", "I2"] if tier == "quick" else ["C1", "C2", "C3", "T3", "I2"]
    # (M) as coded: the other clauses hold, C35_Distinct fails -> counterexamples executed on the implementation
    for c in ([] if tier == "quick" else ["C1", "C2", "C3"]):
        res = vf.run_tlc("MC_SpawnerPool", "MC_SpawnerPool_Coded_%s.cfg" % c, workers=8, timeout=1500, tags=(), coverage=False)
        if res.violated:
            raise vf.ToolError("as-coded pool model violates %s at design level:\n%s" % (res.violated, res.error_trace[:3000]))
        out.add("as_coded_model_states", res.distinct)
    f8 = False
    for kind in ("Any", "Realistic"):
        f8 = pool_witness(out, seed, "C2", kind) or f8
    if tier != "quick":
        # (with 3 usable addresses and count 3 no lookup leaves an address over, so only answers that repeat an
        # address produce the duplicate there)
        f8 = pool_witness(out, seed, "C3", "Any") or f8
    for c in cfgs:
        pool_replay(out, seed, c, f8)
    for name in (["W4", "W2"] if tier == "quick" else ["W4", "W2", "W6"]):
        pool_trace(out, tier, seed, name)


PROPS.append("C35")
_RUN["C35"] = ("model_checking", run_c35)
MANIFEST["C35"] = dict(
    level="model_checking", engine="tlc+replay+trace", design_ref="6.10, 7 (daemon task group), 9 (F-8)",
    technique="TLA+ model of the pool bookkeeping (spec/Spawner.tla part Pool) in an intended and an as-coded variant, model-checked "
              "with TLC; every transition replayed on the real PoolSpawner with scripted DNS; random sessions validated by TLC (Trace_SpawnerPool)",
    text="At most `count` active sources, pairwise distinct addresses, no Create for an ignored address: invariants of the intended model "
         "for count 1..3, 4 addresses (one ignored), every DNS answer of up to 3 addresses with repetition or failure, removals of any "
         "source for any reason; TLC exhibits the duplicate-address counterexample on the bookkeeping as coded and the check executes it on "
         "the real spawner; the implementation is compared with the intended model after every step.",
    note="bounded model (count <= 3, 4-5 addresses, answers <= 3-4 addresses); wider parameters only in recorded random sessions; the NTS "
         "pool spawner is not exercised (needs a live key-exchange server); conformance only on behaviours replayed/recorded")


# --------------------------------------------------------------------------------------------
# C36  spawner pacing (spawner_task) and removal handling of the single-server spawner
# --------------------------------------------------------------------------------------------
STD_TEST = "daemon::spawn::standard::verif_hook::verif_standard"
PACER_TEST = "daemon::spawn::verif_hook::verif_pacer"


def generic_replay(out, prop, seed, module, cfg, crate, test, hcfg, act_sig, label, post_key="post", max_len=60, vacuity=None):
    """(M)+(G) for a deterministic Post/Out model without expected deviations: every transition replayed."""
    g, mc, inits = vf.collect_graph(module, cfg, workers=8, timeout=1500)
    if mc.violated:
        raise vf.ToolError("model %s/%s violates %s at design level:\n%s" % (module, cfg, mc.violated, mc.error_trace[:3000]))
    out.add("states", mc.distinct)
    out.add("transitions", mc.generated)
    if not inits or not g.edges:
        raise vf.ToolError("generator printed nothing (%s)" % cfg)
    if vacuity:
        for what, pred in vacuity.items():
            if not any(pred(e[2]) for e in g.edges):
                raise vf.ToolError("vacuous model run (%s): %s never happens" % (cfg, what))
    wanted = [i for i, e in enumerate(g.edges) if e[2]["cones"].get(prop)]
    if not wanted:
        raise vf.ToolError("vacuous: no transition of %s is constrained by %s" % (cfg, prop))
    rng = random.Random(seed)
    walks = g.tours(inits[0], max_len=max_len, rng=rng, edge_filter=lambda rec: bool(rec["cones"].get(prop)))
    rows = []
    for n, w in enumerate(walks):
        rows.append({"id": n, "walk": [dict(act=g.edges[e][2]["act"], post=g.edges[e][2]["post"], out=g.edges[e][2]["out"],
                                             obs=g.edges[e][2].get("obs")) for e in w]})
    wd = vf.workdir(label)
    res = replay_walks(crate, test, hcfg, rows, wd, prop, seed)
    confirmed, steps = set(), 0
    for n, w in enumerate(walks):
        r = res[n]
        steps += r["steps_run"]
        f = r["fail"]
        confirmed.update(w[:(r["steps_run"] if f is None else f["step"])])
        if f is None:
            continue
        rec = g.edges[w[f["step"]]][2]
        fields = set(f["fields"])
        cone = set(rec["cones"].get(prop, []))
        detail = {"how": "replay", "cfg": cfg, "history": [g.edges[x][2]["act"] for x in w[:f["step"] + 1]],
                  "expected": {"post": rec.get("obs") or rec["post"], "out": rec["out"]}, "observed": f.get("observed"),
                  "panic": f.get("panic"), "differing": sorted(fields)}
        if fields & cone:
            out.violation("%s:%s:%s" % (label, act_sig(rec["act"]), ",".join(sorted(fields & cone))), detail)
        else:
            out.divergences.append(detail)
            out.notes.append("divergence outside %s's cone (%s, fields %s)" % (prop, label, sorted(fields)))
    out.add("replayed_steps", steps)
    out.add("replayed_walks", len(walks))
    out.add("model_transitions_constrained_by_property", len(wanted))
    out.add("model_transitions_confirmed_on_impl", len([e for e in confirmed if e in set(wanted)]))
    if walks:
        w = walks[0][:6]
        out.sample({"model": label, "walk_prefix": [act_sig(g.edges[e][2]["act"]) for e in w],
                    "expected_after_last": g.edges[w[-1]][2].get("obs") or g.edges[w[-1]][2]["post"],
                    "expected_out": g.edges[w[-1]][2]["out"]})
    return g


def pacer_act_sig(a):
    if a["t"] == "Event":
        return "Event[%s]" % a["k"]
    if a["t"] == "Script":
        return "Script[d=%s,c=%s]" % (a["d"], a["c"])
    return a["t"]


def pacer_trace(out, tier, seed):
    wd = vf.workdir("SpawnerPacer_trace")
    tf = os.path.join(wd, "trace.ndjson")
    sessions, steps = (25, 150) if tier == "quick" else (300, 400)
    vf.run_harness("ntpd", PACER_TEST, {"mode": "record", "cfg": {"tick_ms": 50, "max_d": 45, "qmax": 6}, "seed": seed,
                                        "sessions": sessions, "steps": steps, "output": tf})
    events = sum(1 for _ in open(tf))
    lines = {"MISMATCH": [], "DONE": [], "BAD": []}
    res = vf.run_tlc("Trace_SpawnerPacer", "Trace_SpawnerPacer.cfg", workers=1, timeout=1500, env={"TRACE": tf}, tags=tuple(lines),
                     line_sink=lambda tag, obj: lines[tag].append(obj), coverage=False, xmx="4g")
    if res.violated:
        raise vf.ToolError("trace spec failed: %s\n%s" % (res.violated, res.error_trace[:2000]))
    done = lines["DONE"]
    if not done or done[-1].get("consumed") != events:
        raise vf.ToolError("trace validation did not consume the whole trace (%s of %d events)\n%s" % (
            done[-1] if done else None, events, res.stdout[-1500:]))
    out.add("traces_validated_against_impl", done[-1].get("behaviours", 0))
    out.add("trace_events", events)
    starts = 0
    with open(tf) as f:
        for line in f:
            if '"started":true' in line:
                starts += 1
    if starts < sessions:
        raise vf.ToolError("vacuous trace: only %d attempts in %d sessions" % (starts, sessions))
    out.add("trace_attempts_observed", starts)
    for m in lines["BAD"]:
        for wname in sorted(m["what"]):
            out.violation("Spawner:Pacer:%s" % wname, {"how": "trace (model-level clause)", "trace": tf, "line": m["line"], "pre": m["pre"], "act": m["act"]})
    for m in lines["MISMATCH"]:
        out.violation("Spawner:Pacer:trace:%s:%s" % (pacer_act_sig(m["act"]), ",".join(sorted(m["fields"]))),
                      {"how": "trace", "trace": tf, "line": m["line"], "pre": m.get("pre"), "act": m["act"],
                       "expected": m["expected"], "observed": m["observed"], "panic": m.get("panic")})


# ---- stage SysTask: the system task's source life cycle (spec/SysTask.tla) ----------------------
SYS_TEST = "daemon::system::verif_hook::verif_systask"
SYS_CFGS = {  # Gen configuration suffix -> constants the harness needs
    "Life": dict(MaxId=2, NSp=2), "Pub": dict(MaxId=2, NSp=1),
    "LifeT": dict(MaxId=3, NSp=2), "PubT": dict(MaxId=3, NSp=1),
}


def sys_act_sig(a):
    t = a["t"]
    if t == "Create":
        return "Create[sp=%s,%s]" % (a["sp"], a["kind"])
    if t == "Msg":
        return "Msg[%s,%s]" % (a["k"], a["id"])
    if t == "Exit":
        return "Exit[%s]" % a["id"]
    if t == "Use":
        return "Use%s" % a["u"]
    return t


def sys_stale(rec):
    """a tick after which the published reference is a source that is no longer in the table"""
    p = rec["post"]
    return rec["act"]["t"] == "Tick" and p["pub"]["k"] == "Ntp" and p["owner"][p["pub"]["id"] - 1] == 0


def systask_replay(out, seed, name):
    """(M)+(G) for MC_SysTask/<name>: TLC checks SYS1..SYS5 on the bounded model; EVERY transition is replayed on a real
    SystemTask.  A difference in C36's cone (the reason delivered to the owning spawner) is a C36 violation; any other
    difference is a divergence note attributed to SYS."""
    cfg = "Gen_SysTask_%s.cfg" % name
    label = "SysTask:%s" % name
    g, mc, inits = vf.collect_graph("MC_SysTask", cfg, workers=8, timeout=1500)
    if mc.violated:
        raise vf.ToolError("model MC_SysTask/%s violates %s at design level:\n%s" % (cfg, mc.violated, mc.error_trace[:3000]))
    if not inits or not g.edges:
        raise vf.ToolError("generator printed nothing (%s)" % cfg)
    out.add("states", mc.distinct)
    out.add("transitions", mc.generated)
    out.add("systask_states", mc.distinct)
    out.add("systask_transitions", mc.generated)
    vac = {"removal with reason %s delivered to the owner" % r: (lambda rec, r=r: rec["out"]["reason"] == r)
           for r in (("Unreachable",) if name.startswith("Pub") else ("NetworkIssue", "Unreachable", "Demobilized"))}
    vac["announcement of a created source"] = lambda rec: rec["act"]["t"] == "Create" and len(rec["out"]["evs"]) == 1
    vac["removal while another source stays in the table"] = lambda rec: rec["act"]["t"] == "Msg" and any(rec["post"]["owner"])
    if name.startswith("Life"):
        vac["removal message for an id that is not in the table (panic branch)"] = lambda rec: rec["out"]["panic"]
        vac["source of a spawner unknown to the system"] = lambda rec: rec["act"]["t"] == "Msg" and not rec["out"]["panic"] and not rec["out"]["evs"]
        vac["source task exit"] = lambda rec: rec["act"]["t"] == "Exit"
    else:
        vac["tick publishing a SOCK reference"] = lambda rec: rec["act"]["t"] == "Tick" and rec["post"]["pub"]["k"] == "Sock"
        vac["tick that keeps the stale reference of a removed source"] = sys_stale
        vac["tick that replaces the reference"] = lambda rec: rec["act"]["t"] == "Tick" and rec["post"]["pub"] != rec["pre"]["pub"]
    for what, pred in vac.items():
        if not any(pred(e[2]) for e in g.edges):
            raise vf.ToolError("vacuous model run (%s): %s never happens" % (cfg, what))
    wanted = set(i for i, e in enumerate(g.edges) if e[2]["cones"].get("C36"))
    if not wanted:
        raise vf.ToolError("vacuous: no transition of %s is constrained by C36" % cfg)
    rng = random.Random(seed)
    walks = g.tours(inits[0], max_len=40, rng=rng)
    rows = walk_rows(g, walks)
    wd = vf.workdir(label.replace(":", "_"))
    hcfg = dict(SYS_CFGS[name], settle=40)
    res = replay_walks("ntpd", SYS_TEST, hcfg, rows, wd, "C36", seed)
    confirmed, steps, noted = set(), 0, {}
    for n, w in enumerate(walks):
        r = res[n]
        steps += r["steps_run"]
        f = r["fail"]
        confirmed.update(w[:(r["steps_run"] if f is None else f["step"])])
        if f is None:
            continue
        rec = g.edges[w[f["step"]]][2]
        fields = set(f["fields"])
        cone = set(rec["cones"].get("C36", []))
        detail = {"how": "replay", "cfg": cfg, "history": [g.edges[x][2]["act"] for x in w[:f["step"] + 1]],
                  "expected": {"post": rec["post"], "out": rec["out"]}, "observed": f.get("observed"),
                  "panic": f.get("panic"), "differing": sorted(fields),
                  "attributed_to": ["C36"] if fields & cone else ["SYS"]}
        if fields & cone:
            out.violation("%s:%s:%s" % (label, sys_act_sig(rec["act"]), ",".join(sorted(fields & cone))), detail)
        else:
            out.divergences.append(detail)
            k = (sys_act_sig(rec["act"]).split("[")[0], tuple(sorted(fields)))
            if k not in noted:
                noted[k] = [0, detail["history"]]
            noted[k][0] += 1
    for (what, fields), (cnt, hist) in sorted(noted.items()):
        out.notes.append("divergence outside C36's cone, attributed to SYS (%s: %d walks stop at a %s step, fields %s, e.g. history %s)" % (
            label, cnt, what, list(fields), " ".join(sys_act_sig(a) for a in hist)))
    missing = [i for i in range(len(g.edges)) if i not in confirmed]
    if missing and not out.violations and not out.divergences:
        raise vf.ToolError("%s: %d transitions were not replayed" % (label, len(missing)))
    out.add("replayed_steps", steps)
    out.add("replayed_walks", len(walks))
    out.add("model_transitions_constrained_by_property", len(wanted))
    out.add("model_transitions_confirmed_on_impl", len(confirmed & wanted))
    out.add("systask_steps_replayed", steps)
    out.add("systask_transitions_confirmed_on_impl", len(confirmed))
    out.add("systask_panic_transitions_confirmed", len([i for i in confirmed if g.edges[i][2]["out"]["panic"]]))
    stale = [i for i in confirmed if sys_stale(g.edges[i][2])]
    out.add("systask_stale_reference_ticks_confirmed", len(stale))
    if walks:
        w = max(walks, key=lambda w: sum(1 for e in w if e in wanted))[:8]
        out.sample({"model": label, "walk_prefix": [sys_act_sig(g.edges[e][2]["act"]) for e in w],
                    "expected_after_last": {k: g.edges[w[-1]][2]["post"][k] for k in ("owner", "kind", "reg", "rem", "snaps", "pub")},
                    "expected_out": g.edges[w[-1]][2]["out"]})
    return g, confirmed


def systask_stage(out, tier, seed):
    out.coverage["rule"] = out.coverage.get("rule", "") + (
        "; every transition of the bounded SysTask models (source life cycle of the system task: creations by two registered spawners "
        "and an unknown one, all removal messages incl. messages for ids not in the table, source exits, controller selections, "
        "timer ticks) is replayed on a real SystemTask::run; only the reason delivered to the owning spawner is in C36's cone")
    out.assumptions += ["SysTask: removal messages are injected on the real msg_for_system channel in the name of the source task (the real "
                        "SourceTask is running but parked: poll interval 2^17 s); its last act (removing its snapshot entry) is done by the driver",
                        "SysTask: scripted clock controller (the real one selects sources from measurements); one event is handled to "
                        "quiescence before the next is sent (events of different sources commute on everything observed)"]
    for name in (("Life", "Pub") if tier == "quick" else ("LifeT", "PubT")):
        systask_replay(out, seed, name)
    # the intended form of SYS5 does not hold for the code as written: TLC must still find the documented counterexample
    res = vf.run_tlc("MC_SysTask", "CE_SysTask_Stale.cfg", workers=1, timeout=600, coverage=False, tags=())
    if "SYS5_IntendedInv" not in str(res.violated):
        raise vf.ToolError("CE_SysTask_Stale: the documented counterexample of SYS5_Intended was not found (%s)" % res.violated)
    trace = tlc_trace_json(res)
    out.notes.append("SYS5 (as coded, not a C36 matter): after a used source has been removed the timer loop keeps publishing its "
                     "reference until the controller reports another selection; TLC counterexample of the intended invariant has "
                     "%d states; the stale ticks of the bounded model were confirmed on the real SystemTask" % len(trace))


def run_c36(out, tier, seed):
    out.coverage["rule"] = ("every transition of the bounded Pacer model (spawner_task around a scripted spawner, W = 4 ticks) is replayed "
                            "on the real task on the paused tokio clock; every transition of the Standard model on the real "
                            "StandardSpawner with scripted DNS; random Pacer sessions (W = 20 ticks) validated by Trace_SpawnerPacer")
    out.assumptions += ["at one instant the task runs until it blocks before the environment acts (events never race a timer at the same instant)",
                        "handlers of the scripted spawner take no time; events arrive on tick boundaries (250 ms in replay, 50 ms in traces)",
                        "the wait period is measured from the return of try_spawn, as the code does",
                        "NTS single-server spawner (needs a live key-exchange server) not exercised"]
    generic_replay(out, "C36", seed, "MC_SpawnerPacer", "Gen_SpawnerPacer%s.cfg" % ("" if tier == "quick" else "_T"), "ntpd", PACER_TEST,
                   {"tick_ms": 250}, pacer_act_sig, "Spawner:Pacer", max_len=60,
                   vacuity={"attempt start": lambda r: r["out"]["started"], "attempt of non-zero duration": lambda r: r["post"]["busy"] > 0,
                            "queued event": lambda r: len(r["post"]["q"]) > 0,
                            "attempt triggered by the wait timer": lambda r: r["act"]["t"] == "Tick" and r["out"]["started"],
                            "attempt triggered by an event": lambda r: r["act"]["t"] == "Event" and r["out"]["started"]})
    generic_replay(out, "C36", seed, "MC_SpawnerStd", "Gen_SpawnerStd.cfg", "ntpd", STD_TEST, {}, pool_act_sig, "Spawner:Standard",
                   vacuity={"create": lambda r: bool(r["out"]["creates"]),
                            "demobilised": lambda r: r["post"]["demob"],
                            "re-resolution": lambda r: r["pre"]["lastReason"] == "Unreachable" and bool(r["out"]["creates"]),
                            "address reuse": lambda r: r["pre"]["lastReason"] == "NetworkIssue" and bool(r["out"]["creates"])})
    pacer_trace(out, tier, seed)
    systask_stage(out, tier, seed)


PROPS.append("C36")
_RUN["C36"] = ("model_checking", run_c36)
MANIFEST["C36"] = dict(
    level="model_checking", engine="tlc+replay+trace", design_ref="6.10, 7 (daemon task group)",
    technique="TLA+ models of the spawner task's ticket pacing and of the single-server spawner's removal handling (spec/Spawner.tla parts "
              "Pacer, Standard) model-checked with TLC; every transition replayed on the real spawner_task (scripted spawner, paused "
              "tokio clock, virtual times of try_spawn entry/exit) and the real StandardSpawner (scripted DNS); random sessions validated by TLC",
    text="An attempt starts no earlier than one wait period after the previous attempt returned and, while the spawner is incomplete, "
         "exactly when that period is over, for every interleaving of registration/removal/idle events, ticks and attempts of 0, 1 or 5 "
         "ticks (period = 4 ticks); the standard spawner stays complete after a Demobilized removal, resolves afresh after Unreachable "
         "and reuses its address after NetworkIssue.",
    note="discrete time (250 ms ticks in the bounded model, 50 ms in recorded sessions); events only on tick boundaries and never racing a "
         "timer at the same instant; scripted spawner handlers take no time; NTS spawner not exercised")

MANIFEST["C36"]["technique"] += ("; TLA+ model of the system task's source life cycle (spec/SysTask.tla: source table, events delivered "
                                 "to spawners, removal reasons, published snapshot) model-checked with TLC (SYS1..SYS5) and every transition "
                                 "replayed on a real SystemTask::run with scripted spawners and controller")
MANIFEST["C36"]["note"] += ("; SysTask stage: removal messages injected in the name of (parked) real source tasks; only the reason delivered to "
                            "the owning spawner is attributed to C36, other differences are notes attributed to SYS")


# --------------------------------------------------------------------------------------------
# C40  GPSd SOCK samples
# --------------------------------------------------------------------------------------------
SOCK_TEST = "daemon::sock_source::verif_hook::verif_sock"
SIG_F10 = "SockSample:non-finite-offset-not-rejected"
SIG_OVERSIZE = "SockSample:oversized-datagram-accepted"
NONFINITE = ("nan", "pinf", "ninf")


def sock_sig(a):
    c = a["c"]
    return "%s[size=%s,magic=%s,pulse=%s,off=%s,leap=%s]" % (a["path"], c["size"], c["magic"], c["pulse"], c["off"], c["leap"])


def run_c40(out, tier, seed):
    out.coverage["rule"] = ("every datagram class (size x magic x pulse x offset class x leap, 3240 classes) is concretised into bytes and put "
                            "through deserialize_sample and through the unix socket of a real SockSourceTask with a recording controller; "
                            "verdict compared with the intended decoder of SockSample.tla")
    out.assumptions += ["code observed as compiled for tests (debug assertions on: a non-finite offset panics in NtpDuration::from_seconds; "
                        "in release builds NaN becomes offset 0 and infinities saturate)",
                        "one representative value per class"]
    # (M) TLC exhibits the counterexamples on the decoder as coded
    ce = {}
    for name in ("NonFinite", "Oversize"):
        res = vf.run_tlc("MC_SockSample", "CE_SockSample_%s.cfg" % name, workers=1, timeout=600, tags=(), coverage=False)
        if "C40_Holds" not in res.violated:
            raise vf.ToolError("the as-coded sample decoder no longer violates C40 (%s): transcription changed?" % name)
        tr = tlc_trace_json(res)
        if len(tr) < 2:
            raise vf.ToolError("cannot read TLC's counterexample (%s)" % name)
        ce[name] = tr[-1]
        out.add("design_level_counterexamples_found_by_tlc", 1)
    if ce["NonFinite"]["c"]["off"] not in NONFINITE or ce["Oversize"]["c"]["size"] <= 40:
        raise vf.ToolError("unexpected counterexamples %s" % key(ce))
    # (M) intended decoder + (G) every class on the implementation
    g, mc, inits = vf.collect_graph("MC_SockSample", "Gen_SockSample.cfg", workers=8, timeout=1500)
    if mc.violated:
        raise vf.ToolError("intended sample decoder violates %s at design level:\n%s" % (mc.violated, mc.error_trace[:3000]))
    out.add("states", mc.distinct)
    out.add("transitions", mc.generated)
    recs = [e[2] for e in g.edges]
    if not any(r["out"]["accepted"] for r in recs) or not any(not r["out"]["accepted"] for r in recs):
        raise vf.ToolError("vacuous class enumeration")
    rng = random.Random(seed)
    order = list(range(len(recs)))
    rng.shuffle(order)
    rows = [{"id": i, "act": recs[i]["act"], "out": recs[i]["out"]} for i in order]
    wd = vf.workdir("SockSample")
    wf, rf = os.path.join(wd, "classes.ndjson"), os.path.join(wd, "results.ndjson")
    vf.write_ndjson(wf, rows)
    vf.run_harness("ntpd", SOCK_TEST, {"mode": "replay", "input": wf, "output": rf, "seed": seed})
    res = {r["id"]: r for r in vf.read_ndjson(rf)}
    if len(res) != len(rows):
        raise vf.ToolError("harness returned %d results for %d classes" % (len(res), len(rows)))
    confirmed = 0
    for i, rec in enumerate(recs):
        r = res[i]
        fields = set(r["fields"])
        if not fields:
            confirmed += 1
            continue
        a, c = rec["act"], rec["act"]["c"]
        cone = set(rec["cones"]["C40"])
        detail = {"how": "replay", "class": a, "expected": rec["out"], "observed": r["observed"], "panic": r.get("panic"), "differing": sorted(fields)}
        if not (fields & cone):
            out.divergences.append(detail)
            out.notes.append("divergence outside C40's cone: %s %s" % (sock_sig(a), sorted(fields)))
            continue
        obs = r["observed"] or {}
        explained = None
        if rec["dev"]:
            nonfinite = c["off"] in NONFINITE
            if nonfinite:
                # as coded: accepted; with debug assertions the conversion of the accepted sample panics inside the task
                if (a["path"] == "direct" and obs.get("result") == "Ok") or (a["path"] == "task" and (r.get("panic") == "SockSourceTask panicked" or obs.get("accepted") is True)):
                    explained = SIG_F10
            elif c["size"] > 40 and a["path"] == "task" and obs.get("accepted") is True and not r.get("panic"):
                explained = SIG_OVERSIZE
        if explained:
            out.add("classes_deviating_as_the_as_coded_decoder_predicts", 1)
            out.violation(explained, detail)
            if explained == SIG_F10:
                out.sample({"finding": "F-10", "class": sock_sig(a), "observed": obs, "panic": r.get("panic")}, cap=3)
        else:
            out.violation("SockSample:%s:%s" % (sock_sig(a), ",".join(sorted(fields & cone))), detail)
    out.add("model_transitions_constrained_by_property", len(recs))
    out.add("model_transitions_confirmed_on_impl", confirmed)
    out.add("replayed_steps", len(recs))
    out.add("traces_validated_against_impl", 0)
    out.sample({"class": sock_sig(recs[0]["act"]), "expected": recs[0]["out"], "observed": res[0]["observed"]})


PROPS.append("C40")
_RUN["C40"] = ("model_checking", run_c40)
MANIFEST["C40"] = dict(
    level="model_checking", engine="tlc+replay", design_ref="6.11, 7 (daemon task group), 9 (F-10)",
    technique="TLA+ decoder of the SOCK sample (spec/SockSample.tla) in an intended and an as-coded variant, checked by TLC over the class "
              "grammar; every class concretised into bytes and run through deserialize_sample and through the real SockSourceTask over a "
              "unix datagram socket with a recording controller",
    text="accept <=> size = 40 and magic ok and pulse = 0 and offset finite, over 6 sizes x 3 magics x 4 pulse values x 9 offset classes "
         "(incl. NaN, +-inf, subnormal, -0.0, huge) x 5 leap values on both paths; rejected datagrams produce no measurement and no crash.",
    note="class grammar with one representative per class; observed as compiled for tests (debug assertions); value fidelity of the "
         "measurement (offset, leap) compared but not part of the property's cone")


# --------------------------------------------------------------------------------------------
# C39  configuration loading: step thresholds and structural classes
# --------------------------------------------------------------------------------------------
CFG_PROTO_TEST = "config::verif_hook::verif_config"
CFG_DAEMON_TEST = "daemon::config::verif_hook::verif_config"
SIG_F9_NEG = "ConfigThresholds:negative-threshold-accepted"
SIG_F9_NONFINITE = "ConfigThresholds:non-finite-direction-value-panics"
SIG_F9_ACC = "ConfigThresholds:negative-accumulated-threshold-accepted"
TOML_VAL = {"neg": "-1.5", "negint": "-3", "negzero": "-0.0", "zero": "0.0", "pos": "2.25", "posint": "7", "pinf": "inf", "ninf": "-inf",
            "nan": "nan", "infstr": '"inf"', "otherstr": '"many"', "bool": "true", "hugeint": "9223372036854775807",
            "table": "{ a = 1 }", "array": "[1, 2]", "hugefloat": "1e30", "durmax": "1.9e19", "tiny": "1e-320"}
MALFORMED = {
    "empty": "",
    "garbage": "\x00\x01 this is = = not toml [[[",
    "unknown-key": "[synchronization]\nno-such-setting = 1\n",
    "unknown-table": "[no-such-table]\na = 1\n",
    "duplicate-key": "[synchronization]\nlocal-stratum = 2\nlocal-stratum = 3\n",
    "duplicate-table": "[synchronization]\nlocal-stratum = 2\n[synchronization]\nwarn-on-jump = true\n",
    "table-as-number": "synchronization = 5\n",
    "array-as-table": "[[synchronization]]\nlocal-stratum = 2\n",
    "unterminated-string": "[observability]\nlog-level = \"info\n",
    "nested-threshold-unknown-key": "[synchronization]\nsingle-step-panic-threshold = { sideways = 1.0 }\n",
    "threshold-duplicate-direction": "[synchronization]\nsingle-step-panic-threshold = { forward = 1.0, forward = 2.0 }\n",
    "threshold-empty-map": "[synchronization]\nstartup-step-panic-threshold = { }\n",
    "threshold-array": "[synchronization]\nsingle-step-panic-threshold = [1.0, 2.0]\n",
}


def threshold_doc(c):
    v = TOML_VAL[c["val"]]
    expr = {"number": v, "fwd": "{ forward = %s }" % v, "bwd": "{ backward = %s }" % v,
            "both": "{ forward = %s, backward = 1.5 }" % v, "both2": "{ forward = 2.5, backward = %s }" % v}[c["form"]]
    return "[synchronization]\n%s = %s\n" % (c["key"], expr)


def struct_doc(c):
    if c["field"] == "malformed":
        return MALFORMED[c["val"]]
    v = TOML_VAL[c["val"]]
    f = c["field"]
    if f == "source.pool.count":
        return '[[source]]\nmode = "pool"\naddress = "pool.example.org"\ncount = %s\n' % v
    if f.startswith("source.sock.") or f.startswith("source.pps."):
        mode, key = f.split(".")[1:]
        other = "".join("%s = 0.001\n" % k for k in ("precision", "accuracy") if k != key)
        return '[[source]]\nmode = "%s"\npath = "/run/verif.%s"\n%s = %s\n%s' % (mode, mode, key, v, other if key != "measurement_noise_estimate" else "")
    if f.startswith("source.csptp."):
        return '[[source]]\nmode = "csptp"\naddress = "csptp.example.org"\n%s = %s\n' % (f.split(".")[-1], v)
    if f.startswith("nts-ke-server."):
        return ('[[nts-ke-server]]\nlisten = "127.0.0.1:4460"\ncertificate-chain-path = "/nonexistent/verif.chain.pem"\n'
                'private-key-path = "/nonexistent/verif.key"\n%s = %s\n' % (f.split(".")[-1], v))
    if f.startswith("server."):
        return '[[server]]\nlisten = "127.0.0.1:1123"\n%s = %s\n' % (f.split(".")[-1], v)
    parts = f.split(".")
    return "[%s]\n%s = %s\n" % (".".join(parts[:-1]), parts[-1], v)


def cfg_sig(a):
    c = a["c"]
    if a["kind"] == "threshold":
        return "%s[%s,%s,%s]" % (a["path"], c["key"], c["form"], c["val"])
    return "struct[%s=%s]" % (c["field"], c["val"])


def run_c39(out, tier, seed):
    out.coverage["rule"] = ("every threshold class (3 settings x 5 forms x 12 value classes) through the serde visitors of ntp-proto and, as a "
                            "TOML document, through toml::from_str::<Config> + Config::check; outcome compared with the intended loader of "
                            "ConfigThresholds.tla; structural classes (38 other settings x 18 value classes, 13 malformed documents): no panic")
    out.assumptions += ["code observed as compiled for tests (debug assertions on: NaN / infinite per-direction values panic in "
                        "NtpDuration::from_seconds; in release builds NaN is accepted as 0 and infinities saturate)",
                        "one representative value per class; the configuration file is read as a string (file-system errors not exercised)"]
    ce = {}
    for name in ("Negative", "NaN"):
        res = vf.run_tlc("MC_ConfigThresholds", "CE_ConfigThresholds_%s.cfg" % name, workers=1, timeout=600, tags=(), coverage=False)
        if "C39_Holds" not in res.violated:
            raise vf.ToolError("the as-coded threshold loader no longer violates C39 (%s): transcription changed?" % name)
        tr = tlc_trace_json(res)
        if len(tr) < 2:
            raise vf.ToolError("cannot read TLC's counterexample (%s)" % name)
        ce[name] = tr[-1]
        out.add("design_level_counterexamples_found_by_tlc", 1)
    g, mc, inits = vf.collect_graph("MC_ConfigThresholds", "Gen_ConfigThresholds.cfg", workers=4, timeout=1500)
    if mc.violated:
        raise vf.ToolError("intended threshold loader violates %s at design level:\n%s" % (mc.violated, mc.error_trace[:3000]))
    out.add("states", mc.distinct)
    out.add("transitions", mc.generated)
    recs = [e[2] for e in g.edges]
    thr = [r for r in recs if r["act"]["kind"] == "threshold"]
    if not any(r["out"]["verdict"] == "ok" for r in thr) or not any(r["out"]["verdict"] == "err" for r in thr) or not any(r["dev"] for r in thr):
        raise vf.ToolError("vacuous class enumeration")
    rng = random.Random(seed)
    order = list(range(len(recs)))
    rng.shuffle(order)
    wd = vf.workdir("ConfigThresholds")
    res = {}
    for path, crate, test in (("proto", "ntp_proto", CFG_PROTO_TEST), ("daemon", "ntpd", CFG_DAEMON_TEST)):
        rows = []
        for i in order:
            a = recs[i]["act"]
            if a["path"] != path:
                continue
            row = {"id": i, "act": a, "out": recs[i]["out"]}
            if path == "daemon":
                row["doc"] = threshold_doc(a["c"]) if a["kind"] == "threshold" else struct_doc(a["c"])
            rows.append(row)
        wf, rf = os.path.join(wd, "classes_%s.ndjson" % path), os.path.join(wd, "results_%s.ndjson" % path)
        vf.write_ndjson(wf, rows)
        vf.run_harness(crate, test, {"mode": "replay", "input": wf, "output": rf, "seed": seed})
        got = vf.read_ndjson(rf)
        if len(got) != len(rows):
            raise vf.ToolError("harness returned %d results for %d classes (%s)" % (len(got), len(rows), path))
        res.update({r["id"]: r for r in got})
    confirmed = 0
    struct_ok = struct_err = 0
    for i, rec in enumerate(recs):
        r = res[i]
        a = rec["act"]
        obs = r["observed"] or {}
        if a["kind"] == "struct":
            struct_ok += obs.get("verdict") == "ok"
            struct_err += obs.get("verdict") == "err"
        fields = set(r["fields"])
        if not fields:
            confirmed += 1
            continue
        cone = set(rec["cones"]["C39"])
        detail = {"how": "replay", "class": a, "expected": rec["out"], "observed": obs, "panic": r.get("panic"), "differing": sorted(fields)}
        if a["kind"] == "struct" or a["path"] == "daemon":
            detail["document"] = threshold_doc(a["c"]) if a["kind"] == "threshold" else struct_doc(a["c"])
        if not (fields & cone):
            out.divergences.append(detail)
            continue
        explained = None
        if rec.get("dev"):
            coded = rec["coded"]
            if coded["verdict"] == "panic" and obs.get("verdict") == "panic":
                explained = SIG_F9_NONFINITE
            elif coded["verdict"] == "ok" and all(obs.get(k) == coded[k] for k in ("verdict", "fwd", "bwd")) and not r.get("panic"):
                explained = SIG_F9_ACC if a["c"]["key"].startswith("accumulated") else SIG_F9_NEG
        if explained:
            out.add("classes_deviating_as_the_as_coded_loader_predicts", 1)
            out.violation(explained, detail)
            if explained == SIG_F9_NEG:
                out.sample({"finding": "F-9", "class": cfg_sig(a), "observed": obs}, cap=4)
        else:
            out.violation("ConfigThresholds:%s:%s" % (cfg_sig(a), ",".join(sorted(fields & cone))), detail)
    if struct_ok < 40 or struct_err < 40:
        raise vf.ToolError("structural classes look vacuous: %d accepted, %d rejected" % (struct_ok, struct_err))
    out.add("structural_documents_accepted", struct_ok)
    out.add("structural_documents_rejected", struct_err)
    out.add("model_transitions_constrained_by_property", len(recs))
    out.add("model_transitions_confirmed_on_impl", confirmed)
    out.add("replayed_steps", len(recs))
    out.add("traces_validated_against_impl", 0)
    out.sample({"class": cfg_sig(thr[0]["act"]), "expected": thr[0]["out"]})


PROPS.append("C39")
_RUN["C39"] = ("model_checking", run_c39)
MANIFEST["C39"] = dict(
    level="model_checking", engine="tlc+replay", design_ref="6.11, 7 (daemon task group), 9 (F-9)",
    technique="TLA+ loader of the step-threshold settings (spec/ConfigThresholds.tla) in an intended and an as-coded variant, checked by "
              "TLC over the class grammar; every class driven through the real serde visitors (ntp-proto) and through "
              "toml::from_str::<Config> + Config::check (ntpd) under catch_unwind; structural TOML classes with the no-panic oracle",
    text="Loading yields an error or a configuration, never a panic; an accepted single / startup / accumulated step threshold is never "
         "negative and a document giving a negative number or NaN for (a direction of) a threshold is rejected: 3 settings x "
         "{number, forward, backward, both} x 12 value classes on two paths; 38 other settings x 18 value classes and 13 malformed documents do not panic.",
    note="class grammar with one representative per class; the structural classes only have the no-panic oracle; observed as compiled for "
         "tests (debug assertions); command-line overrides and file-system errors are not exercised")


# --------------------------------------------------------------------------------------------
# C38  observation socket: framing rule and value fidelity
# --------------------------------------------------------------------------------------------
SIG_ULP = "Framing:raw-float-read-back-one-ulp-off"
FRAMING_TEST = "daemon::sockets::verif_hook::verif_framing"
OBSERVER_TEST = "daemon::observer::verif_hook::verif_observer"


def frame_sig(c):
    return "frame[len=%s,prefix=%s,avail=%s,json=%s,chunk=%s]" % (c["len"], c["prefix"], c["avail"], c["json"], c["chunk"])


def shape_sig(c):
    return "shape[nsrc=%s,nts=%s,dur=%s,nsrv=%s,ctr=%s,flt=%s,ts=%s,thr=%s]" % tuple(c[k] for k in ("nsrc", "nts", "dur", "nsrv", "ctr", "flt", "ts", "thr"))


def run_c38(out, tier, seed):
    rule = ("framing: every stream class (announced length in {0, 1, 2^20-1, 2^20, 2^20+1, 2^32, 2^64-1} x prefix complete/cut x payload "
            "exact/short/extra/absent x valid/invalid JSON x read granularity) through the real read_json on a byte-counting in-memory "
            "stream, result and bytes consumed compared with the state machine of Framing.tla; value fidelity: every enumerated shape of "
            "ObservableState through write_json + read_json, field-wise comparison (integers, strings, enums, raw floats, timestamps "
            "equal; durations within 1e-9 relative + 2^-32 s); a shape is non-trivial if it has a source, a server or a non-zero "
            "duration / float class, distinct = distinct shape records")
    out.coverage["rule"] = rule
    out.assumptions += ["finite numbers only (non-finite floats cannot be represented in JSON and are outside the statement)",
                        "the unix socket itself is replaced by an in-memory stream; ntp-ctl and the metrics exporter use the same read_json::<ObservableState>",
                        "one representative value per class, varied per list index"]
    g, mc, inits = vf.collect_graph("MC_Framing", "Gen_Framing%s.cfg" % ("" if tier == "quick" else "_T"), workers=8, timeout=1500)
    if mc.violated:
        raise vf.ToolError("framing model violates %s at design level:\n%s" % (mc.violated, mc.error_trace[:3000]))
    out.add("states", mc.distinct)
    out.add("transitions", mc.generated)
    recs = [e[2] for e in g.edges]
    frames = [i for i, r in enumerate(recs) if r["act"]["kind"] == "frame"]
    shapes = [i for i, r in enumerate(recs) if r["act"]["kind"] == "shape"]
    need = {"too-large", "eof", "bad-json", "value"}
    if need - set(recs[i]["out"]["result"] for i in frames) or len(shapes) < 100:
        raise vf.ToolError("vacuous class enumeration")
    rng = random.Random(seed)
    wd = vf.workdir("Framing")
    res = {}
    for name, idx, test in (("frames", frames, FRAMING_TEST), ("shapes", shapes, OBSERVER_TEST)):
        order = list(idx)
        rng.shuffle(order)
        rows = [{"id": i, "act": recs[i]["act"], "out": recs[i]["out"]} for i in order]
        wf, rf = os.path.join(wd, "%s.ndjson" % name), os.path.join(wd, "results_%s.ndjson" % name)
        vf.write_ndjson(wf, rows)
        vf.run_harness("ntpd", test, {"mode": "replay", "input": wf, "output": rf, "seed": seed})
        got = vf.read_ndjson(rf)
        for r in got:
            if r["id"] == -1:
                if r["write_frame"] != "ok":
                    out.violation("Framing:write_json-frame", {"how": "replay", "observed": r["write_frame"]})
            else:
                res[r["id"]] = r
    if len(res) != len(recs):
        raise vf.ToolError("harness returned %d results for %d classes" % (len(res), len(recs)))
    confirmed = 0
    nontrivial = set()
    total_bytes = 0
    for i, rec in enumerate(recs):
        r = res[i]
        a = rec["act"]
        fields = set(r["fields"])
        if a["kind"] == "shape":
            total_bytes += (r["observed"] or {}).get("bytes", 0)
            if rec["out"]["nontrivial"] and not fields:
                nontrivial.add(key(a["c"]))
        if not fields:
            confirmed += 1
            continue
        cone = set(rec["cones"]["C38"])
        detail = {"how": "replay", "class": a, "expected": rec["out"], "observed": r["observed"], "panic": r.get("panic"), "differing": sorted(fields)}
        diffs = (r["observed"] or {}).get("differences") or []
        if a["kind"] == "shape" and fields == {"out.equal"} and diffs and all(d.startswith("float-ulps=1 ") for d in diffs):
            # the only differences are raw floats that came back as the neighbouring double
            out.add("shapes_with_a_raw_float_one_ulp_off", 1)
            out.violation(SIG_ULP, detail)
            out.sample({"finding": "raw float not equal after the round trip", "class": shape_sig(a["c"]), "differences": diffs[:2]}, cap=4)
        elif fields & cone:
            sig = frame_sig(a["c"]) if a["kind"] == "frame" else shape_sig(a["c"])
            out.violation("Framing:%s:%s" % (sig, ",".join(sorted(fields & cone))), detail)
        else:
            out.divergences.append(detail)
    out.add("framing_classes", len(frames))
    out.add("model_transitions_constrained_by_property", len(recs))
    out.add("model_transitions_confirmed_on_impl", confirmed)
    out.add("replayed_steps", len(recs))
    out.add("traces_validated_against_impl", 0)
    out.add("evaluations", len(shapes))
    out.add("distinct_nontrivial", len(nontrivial))
    out.add("round_tripped_bytes", total_bytes)
    out.coverage["exhaustive"] = tier != "quick"
    out.sample({"class": frame_sig(recs[frames[0]]["act"]["c"]), "expected": recs[frames[0]]["out"], "observed": res[frames[0]]["observed"]})
    big = [i for i in frames if recs[i]["act"]["c"]["len"] == "2^64-1" and recs[i]["act"]["c"]["avail"] == "some"]
    if big:
        out.sample({"class": frame_sig(recs[big[0]]["act"]["c"]), "expected": recs[big[0]]["out"], "observed": res[big[0]]["observed"]})
    out.sample({"class": shape_sig(recs[shapes[-1]]["act"]["c"]), "observed": res[shapes[-1]]["observed"]})


PROPS.append("C38")
_RUN["C38"] = ("model_checking", run_c38)
MANIFEST["C38"] = dict(
    level="model_checking", engine="tlc+replay", design_ref="6.11, 7 (daemon task group), 8",
    technique="TLA+ state machine of the length-prefixed JSON framing (spec/Framing.tla: ReadLen / Reject / ReadPayload / Parse) checked by "
              "TLC; every stream class run through the real read_json on a byte-counting in-memory stream; value fidelity explored over "
              "TLC-enumerated shapes of ObservableState through the real write_json / read_json pair",
    text="A message announcing more than 2^20 bytes is rejected after exactly the 8 prefix bytes with no payload byte consumed, shorter "
         "streams fail without over-reading, a well-framed message consumes exactly 8 + length bytes (109 stream classes); observable "
         "states of 0-3 sources (with/without NTS cookie counts, NtpDuration::MAX placeholders), 0-2 servers, float / counter / "
         "timestamp classes are read back equal, durations within 1e-9 relative + 2^-32 s.",
    note="model_checking applies to the framing rule; the value-fidelity clause is exploration over shapes (numeric, DESIGN section 8); the "
         "unix socket is replaced by an in-memory stream; quick tier samples the shape space, thorough enumerates it")


# --------------------------------------------------------------------------------------------
def run(prop, tier, seed):
    level, fn = _RUN[prop]
    out = vf.Outcome(prop, tier, seed, level)
    fn(out, tier, seed)
    return out
