"""C34 (NTPv5 Bloom filter transfer) decided with spec/Bloom.tla; also observes the Bloom clause of C33 on a real NtpSource."""
import os, json, concurrent.futures
import vf, sm

# cfg name -> constants the harness needs
CFGS = {
    "T1": dict(part="transfer", n=1), "T2": dict(part="transfer", n=2), "T4": dict(part="transfer", n=4),
    "T8": dict(part="transfer", n=8), "T32": dict(part="transfer", n=32), "T128": dict(part="transfer", n=128),
    "Serve": dict(part="serve", n=1), "Ids4": dict(part="ids", n=1, nbits=4),
}
QUICK = ["T1", "T2", "T4", "T32", "Serve", "Ids4"]
THOROUGH = ["T1", "T2", "T4", "T8", "T32", "T128", "Serve", "Ids4"]

# a real NtpSource (chunk size 16, 32 chunks) against a server whose filter does / does not contain our server id
SOURCE_CASES = [
    dict(filters=["own"], switch_at=0, exchanges=40, drop_every=0),
    dict(filters=["none"], switch_at=0, exchanges=40, drop_every=0),
    dict(filters=["near"], switch_at=0, exchanges=40, drop_every=0),
    dict(filters=["half"], switch_at=0, exchanges=36, drop_every=5),
    dict(filters=["own"], switch_at=0, exchanges=50, drop_every=3),
    dict(filters=["none", "own"], switch_at=32, exchanges=70, drop_every=0),   # server starts to follow us later
    dict(filters=["own", "none"], switch_at=32, exchanges=70, drop_every=0),   # ... or stops
    dict(filters=["near", "own"], switch_at=20, exchanges=70, drop_every=7),
    # non-conforming server: short chunks must not be accepted ("chunks are accepted only ... of the requested size")
    dict(filters=["own"], switch_at=0, exchanges=60, drop_every=0, short_every=5, short_len=8),
    dict(filters=["none"], switch_at=0, exchanges=60, drop_every=9, short_every=4, short_len=15),
]


class Bloom(sm.SM):
    module = "Bloom"
    mc_module = "MC_Bloom"
    trace_module = "Trace_Bloom"
    crate = "ntp_proto"
    test = "packet::v5::server_reference_id::verif_hook::verif_bloom"

    def harness_cfg(self, cfgname, init_state):
        return dict(CFGS[cfgname])

    def act_sig(self, a):
        t = a["t"]
        if t == "Response":
            return "Response[id=%s,len=%s,content=%s]" % (a["id"], a["len"], "junk" if a["content"] < 0 else "chunk")
        if t == "Serve":
            return "Serve[via=%s,off=%s,len=%s]" % (a["via"], a["off"], a["len"])
        if t in ("AddId", "Merge"):
            return "%s[%s]" % (t, a["f"])
        return t

    def trace(self, out, prop, tier, seed, kind):
        wd = vf.workdir("Bloom_trace")
        tf = os.path.join(wd, "trace_%s.ndjson" % kind)
        if kind == "transfer":
            sessions, steps = (24, 120) if tier == "quick" else (300, 300)
            job = {"mode": "record", "kind": kind, "seed": seed, "sessions": sessions, "steps": steps,
                   "ns": [1, 2, 4, 8, 16, 32, 64, 128], "output": tf}
        else:
            sessions, steps = (12, 40) if tier == "quick" else (120, 60)
            job = {"mode": "record", "kind": kind, "seed": seed, "sessions": sessions, "steps": steps, "output": tf}
        vf.run_harness(self.crate, self.test, job)
        events = sum(1 for _ in open(tf))
        mism, done = [], []

        def sink(tag, obj):
            (mism if tag == "MISMATCH" else done).append(obj)
        res = vf.run_tlc("Trace_Bloom", "Trace_Bloom.cfg", workers=1, timeout=1500, env={"TRACE": tf}, tags=("MISMATCH", "DONE"),
                         line_sink=sink, coverage=False, xmx="4g", name="Trace_Bloom_" + kind)
        if res.violated:
            raise vf.ToolError("trace spec failed: %s\n%s" % (res.violated, res.error_trace[:2000]))
        if not done or done[-1].get("consumed") != events:
            raise vf.ToolError("trace validation did not consume the whole trace (%s of %d events)\n%s" % (
                done[-1] if done else None, events, res.stdout[-1500:]))
        out.add("traces_validated_against_impl", done[-1].get("behaviours", 0))
        out.add("trace_events", events)
        for m in mism:
            if "enabled" in m["fields"]:
                raise vf.ToolError("recorded action outside the specification's alphabet: %s" % json.dumps(m)[:400])
            rec = {"act": m["act"], "cones": m["cones"], "post": m["expected"]["st"], "out": m["expected"]["out"]}
            fail = {"fields": m["fields"], "observed": m["observed"], "panic": m.get("panic")}
            self.attribute(out, prop, "trace-" + kind, rec, fail, [{"trace": tf, "line": m["line"], "pre": m.get("pre")}], "trace")
        if kind == "rids" and events:
            with open(tf) as f:
                rows = [json.loads(x) for x in f]
            ids = sum(1 for r in rows if r.get("ev") == "rstep" and r["act"]["t"] == "AddId")
            out.add("random_server_ids_added", ids)
            out.add("membership_queries_checked", sum(len(r["ha"]) + len(r["hb"]) + len(r["hu"]) for r in rows if r.get("ev") == "rstep"))

    def source_clause(self, out, prop, tier, seed):
        """Bloom clause of C33 ("a source is never used if an NTPv5 Bloom filter it reports contains this daemon's
        server id") and C34 end to end: a real NtpSource fetches the server's filter in 32 chunks of 16 bytes."""
        wd = vf.workdir("Bloom_source")
        rf = os.path.join(wd, "source_%s.ndjson" % prop)
        reps = 1 if tier == "quick" else 6
        cases = [c for _ in range(reps) for c in SOURCE_CASES]
        vf.run_harness(self.crate, self.test, {"mode": "source", "seed": seed, "cases": cases, "output": rf})
        rows = vf.read_ndjson(rf)
        if len(rows) != len(cases):
            raise vf.ToolError("source scenario returned %d rows for %d cases" % (len(rows), len(cases)))
        rejected = accepted = exchanges = 0
        for r in rows:
            case = r["case"]
            name = "+".join(case["filters"])
            if r.get("error"):
                # cannot be judged; only a tool error if nothing else explains it (a broken filter shows up in the replay stages)
                if not out.violations:
                    raise vf.ToolError("source scenario could not run: %s" % r["error"])
                out.notes.append("source scenario could not run: %s" % r["error"])
                continue
            if r.get("panic"):
                out.violation("Bloom:source[%s]:panic" % name, {"how": "source", "case": case, "panic": r["panic"], "exchange": r.get("exchange")})
                continue
            for row in r["rows"]:
                if row["dropped"]:
                    continue
                exchanges += 1
                bad = []
                if not row["req_ok"]:
                    bad.append("request")
                if not row["held_ok"]:
                    bad.append("held_filter")
                if bad:
                    out.violation("Bloom:source[%s]:%s" % (name, ",".join(bad)),
                                  {"how": "source", "case": case, "row": row, "differing": bad})
                    break
                if row["usable_obs"] != row["usable_exp"]:
                    # the C33 clause; reported here because checks/source.py does not drive Bloom filters
                    out.violation("Bloom:source[%s]:C33-bloom-clause:usable" % name,
                                  {"how": "source", "case": case, "row": row, "differing": ["usable"],
                                   "note": "clause of C33: usable must be false exactly when the completely fetched filter contains our server id"})
                    break
                if row["usable_exp"]:
                    accepted += 1
                else:
                    rejected += 1
        if (rejected == 0 or accepted == 0) and not out.violations:
            raise vf.ToolError("vacuous source scenario (accepted=%d rejected=%d)" % (accepted, rejected))
        out.add("source_exchanges_on_real_NtpSource", exchanges)
        out.add("source_exchanges_expected_unusable_by_bloom_filter", rejected)
        if rows and rows[0].get("rows"):
            out.sample({"source_case": rows[0]["case"], "last_row": rows[0]["rows"][-1]})


def run(prop, tier, seed):
    out = vf.Outcome(prop, tier, seed, "model_checking")
    out.coverage["rule"] = (
        "every transition of the bounded Bloom models (transfer with 1, 2, 4, 32 chunks [thorough: 8, 128], server answer classes, "
        "small-filter id algebra) is replayed on the real RemoteBloomFilter / ReferenceIdRequest / BloomFilter and compared after "
        "every step; random sessions with chunk sizes 4..512 and random real server ids are validated by Trace_Bloom; a real "
        "NtpSource fetches filters in 32 chunks and its usable flag is compared with the Bloom clause of C33")
    out.assumptions += [
        "the server's filter does not change during one round of the transfer model (the source scenario switches filters and compares with the chunk-wise mixture)",
        "request ids (client cookies) are unguessable: an answer carrying the current id is the server's answer to that request",
        "WHEN the server answers 'not at all' is not constrained by C34 (compared, but outside the cone)",
        "code observed as compiled for tests (debug assertions, overflow checks)",
    ]
    b = Bloom()
    cfgs = QUICK if tier == "quick" else THOROUGH
    vf.build_harness()
    # the TLC runs are independent: run them side by side and hand the graphs to the generic pipeline
    with concurrent.futures.ThreadPoolExecutor(len(cfgs)) as ex:
        futs = {"Gen_Bloom_%s.cfg" % c: ex.submit(vf.collect_graph, "MC_Bloom", "Gen_Bloom_%s.cfg" % c, workers=3, timeout=1500) for c in cfgs}
        graphs = {k: f.result() for k, f in futs.items()}
    orig = vf.collect_graph
    vf.collect_graph = lambda module, cfg, **kw: graphs[cfg]
    try:
        for c in cfgs:
            n = CFGS[c]["n"]
            b.model_and_replay(out, prop, tier, seed, c, max_len=max(60, 8 * n + 100))
    finally:
        vf.collect_graph = orig
    b.trace(out, prop, tier, seed, "transfer")
    b.trace(out, prop, tier, seed, "rids")
    b.source_clause(out, prop, tier, seed)
    out.coverage["exhaustive"] = True
    return out


PROPS = ["C34"]

MANIFEST = {
    "C34": dict(
        level="model_checking",
        text=("Bloom.tla: chunk-transfer state machine (Request / Response with current, stale and foreign ids, right and wrong lengths, "
              "right, neighbouring and junk contents) checked exhaustively for 1, 2, 4, 32 (thorough: 8, 128) chunks: filled implies the local "
              "copy is the server's, a response is copied iff outstanding, id and length match; server answer = exactly filter[off..off+len] or "
              "nothing over 15x15 offset/length boundary classes and both constructors; no false negatives over a small filter algebra "
              "(add_id / add / union) embedded exactly into the real 4096-bit filter. Every model transition is replayed on the real code; "
              "random sessions (chunk sizes 4..512, random real server ids, unions) are validated by Trace_Bloom. Bloom clause of C33: a real "
              "NtpSource driven through 32..70 exchanges of 16-byte chunks reports usable = false exactly when the completely fetched filter "
              "contains this daemon's server id."),
        note=("bounded: chunk counts listed, one outstanding request (as in the code), static server filter per round; conformance only on "
              "replayed / recorded behaviours; cookie unguessability assumed; the C33 clause is observed here (8 scenarios), C33 itself is "
              "registered by checks/source.py"),
        technique=("TLA+ state machine and pure-function models (spec/Bloom.tla) model-checked with TLC; transition tours replayed on the real "
                   "code; recorded random sessions validated against the spec by TLC (Trace_Bloom)"),
        design_ref="6.2, 7 (C34), 7 (C33 Bloom clause)",
        engine="tlc+replay+trace"),
}
