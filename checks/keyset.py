"""Checks decided with spec/KeySet.tla: C26 (cookie window, tamper evidence, rotation) and C27 (persistence,
crash atomicity of the store path, corrupted key files)."""
import os, json, re
import vf, sm

QUICK = {"C26": ["RotH0", "RotH1", "RotH2"], "C27": ["Store", "StoreLong", "Faults"]}
THOROUGH = {"C26": ["RotH0", "RotH1", "RotH2", "RotH2All"], "C27": ["Store", "StoreLong", "Faults", "StoreH2", "FaultsH2"]}
FINDING_F6 = "KeySet:load accepts primary == len (loaded key set cannot issue cookies)"


def consts(cfgname):
    """constants of spec/Gen_KeySet_<name>.cfg (the harness needs History, M, InitOffset, InitKeys)"""
    c = {}
    for line in open(os.path.join(vf.SPEC, "Gen_KeySet_%s.cfg" % cfgname)):
        m = re.match(r"\s*(\w+)\s*=\s*(\S.*)$", line)
        if m and m.group(2).strip() in ("TRUE", "FALSE"):
            c[m.group(1)] = m.group(2).strip() == "TRUE"
        elif m and re.match(r"^-?\d+$", m.group(2).strip()):
            c[m.group(1)] = int(m.group(2))
    return c


class KeySet(sm.SM):
    module = "KeySet"
    mc_module = "MC_KeySet"
    trace_module = "Trace_KeySet"
    crate = "ntp_proto"
    test = "keyset::verif_hook::verif_keyset"
    observed = {"trunc": True, "mode": 0o600}
    tier = "quick"

    def configs(self, prop, tier):
        return (QUICK if tier == "quick" else THOROUGH)[prop]

    def harness_cfg(self, cfgname, init_state):
        c = consts(cfgname)
        c.update(trunc=self.observed["trunc"], mode=self.observed["mode"], dir=vf.workdir("KeySet_files_" + cfgname),
                 all_bits=(self.tier != "quick"))
        return c

    def act_sig(self, a):
        return a["t"] + "[" + ",".join("%s=%s" % (k, a[k]) for k in sorted(a) if k != "t") + "]"

    def attribute(self, out, prop, cfgname, rec, fail, acts, how):
        fields = set(fail["fields"])
        cones = rec["cones"]
        hit = [p for p, c in cones.items() if fields & set(c)]
        obs_out = (fail.get("observed") or {}).get("out", {}) or {}
        if rec["out"].get("cls") == "p=len" and (obs_out.get("load") == "unusable" or obs_out.get("res") == "loaded"):
            sig = FINDING_F6
        else:
            sig = "%s:%s:%s:%s" % (self.module, cfgname, self.act_sig(rec["act"]), ",".join(sorted(fields & set(cones.get(prop, [])))))
        detail = {"how": how, "cfg": cfgname, "history": acts, "expected": {"post": rec["post"], "out": rec["out"]},
                  "observed": fail.get("observed"), "panic": fail.get("panic"), "differing": sorted(fields),
                  "attributed_to": sorted(hit)}
        if prop in hit:
            out.violation(sig, detail)
        else:
            out.divergences.append(detail)
            out.notes.append("divergence outside %s's cone (%s/%s, fields %s, attributed to %s)" % (
                prop, self.module, cfgname, sorted(fields), sorted(hit)))

    # ---- (T) -------------------------------------------------------------------------------------------------
    def validate(self, out, prop, name, tf, history, m):
        events = sum(1 for _ in open(tf))
        wd = vf.workdir("KeySet_trace")
        cf = os.path.join(wd, "Trace_KeySet_%s_%s.cfg" % (name, prop))
        with open(cf, "w") as f:
            f.write("CONSTANTS\n  History = %d\n  M = %d\n  InitOffset = 0\n  InitKeys = 0\n  Trunc = TRUE\n  MaxGen = 0\n"
                    "  MaxCookies = 0\n  MaxFaults = 0\nINIT TraceInit\nNEXT TraceNext\nCHECK_DEADLOCK FALSE\n" % (history, m))
        mism, done = [], []

        def sink(tag, obj):
            (mism if tag == "MISMATCH" else done).append(obj)
        res = vf.run_tlc("Trace_KeySet", cf, workers=1, timeout=1500, env={"TRACE": tf}, tags=("MISMATCH", "DONE"),
                         line_sink=sink, coverage=False, xmx="4g", name="Trace_KeySet_" + name)
        if res.violated:
            raise vf.ToolError("trace spec failed: %s\n%s" % (res.violated, res.error_trace[:2000]))
        if not done or done[-1].get("consumed") != events:
            raise vf.ToolError("trace validation did not consume the whole trace (%s of %d events)\n%s" % (
                done[-1] if done else None, events, res.stdout[-1500:]))
        out.add("traces_validated_against_impl", done[-1].get("behaviours", 0))
        out.add("trace_events", events)
        for mm in mism:
            rec = {"act": mm["act"], "cones": mm["cones"], "post": mm["expected"]["st"], "out": mm["expected"]["out"]}
            fail = {"fields": mm["fields"], "observed": mm["observed"], "panic": mm.get("panic")}
            self.attribute(out, prop, name, rec, fail, [{"trace": tf, "line": mm["line"], "pre": mm.get("pre")}], "trace")

    def record_and_validate(self, out, prop, tier, seed):
        wd = vf.workdir("KeySet_trace")
        sessions, steps = (10, 150) if tier == "quick" else (150, 250)
        cfgs = (("H1", 1, 2),) if tier == "quick" else (("H0", 0, 0), ("H1", 1, 2), ("H3", 3, 2))
        for name, history, initkeys in cfgs:
            tf = os.path.join(wd, "trace_%s_%s.ndjson" % (name, prop))
            cfg = {"History": history, "M": 65536, "InitOffset": 65534, "InitKeys": initkeys,
                   "trunc": self.observed["trunc"], "mode": self.observed["mode"]}
            job = {"mode": "record", "cfgs": [cfg], "seed": seed, "sessions": sessions, "steps": steps, "output": tf,
                   "dir": vf.workdir("KeySet_files_rec_" + name)}
            vf.run_harness(self.crate, self.test, job)
            self.validate(out, prop, name, tf, history, 65536)

    def observe_daemon(self, out, prop, seed):
        """Runs the real provider task of ntpd on real files; returns the file-level open behaviour observed."""
        wd = vf.workdir("KeySet_daemon")
        tf = os.path.join(wd, "daemon_trace.ndjson")
        sf = os.path.join(wd, "daemon_summary.json")
        job = {"mode": "observe", "seed": seed, "output": tf, "summary": sf, "dir": vf.workdir("KeySet_files_daemon")}
        vf.run_harness("ntpd", "daemon::nts_key_provider::verif_hook::verif_nts_key_provider", job)
        s = json.load(open(sf))
        if s.get("raced"):
            raise vf.ToolError("the key provider task stored again while its file was being observed (machine too slow)")
        # header field "time": the daemon's start on an otherwise well-formed file with an impossible time stamp
        for name in ("time_half", "time_max", "time_far", "time_zero"):
            if name not in s:
                raise vf.ToolError("daemon stage did not report %s" % name)
            if s[name] != "ok" and prop == "C27":
                out.violation("KeySet:daemon start on a key file with a corrupted time stamp (%s): %s" % (name, s[name]),
                              {"how": "daemon", "file": "well-formed, 2 keys, time field = %s" % name, "observed": s[name]})
            out.add("daemon_starts_on_corrupted_time_stamp", 1)
        self.observed = {"trunc": s["garbage_len_after"] < s["garbage_len_before"], "mode": s["fresh_mode"]}
        out.sample({"daemon_store_path_observed": {"old_file_truncated": self.observed["trunc"],
                                                   "created_mode_octal": oct(self.observed["mode"]), "summary": s}})
        self.validate(out, prop, "daemon", tf, 1, 8)


def run(prop, tier, seed):
    out = vf.Outcome(prop, tier, seed, "model_checking")
    k = KeySet()
    k.tier = tier
    out.assumptions += ["AES-SIV treated as ideal (a modified ciphertext / wrong key never verifies)",
                        "key material abstracted to key identities; the wire-id counter wraps modulo 8 in the model and "
                        "modulo 2^32 in the code (the real key set is started at id_offset 2^32-2)",
                        "code observed as compiled for tests (debug assertions, overflow checks)"]
    if prop == "C26":
        out.coverage["rule"] = ("every transition (Rotate / Issue / Decode x cookie variants) of the bounded KeySet models is replayed on "
                                "the real KeySetProvider; every byte of every issued cookie is modified in the 'tamper' variant; "
                                "random sessions with the real 2^32 wrap-around are validated by Trace_KeySet")
    else:
        out.coverage["rule"] = ("the real provider task is observed on real files (Trace_KeySet, macro steps); every transition of the "
                                "token-level store/crash/restart/fault models is replayed on the real load/store with a real file; "
                                "torn-token transitions try every byte-level crash point, key corruption every key byte")
        out.assumptions += ["open flags / mode of the store path observed at file level on the real task (old longer file shrinks, mode of "
                            "the created file), then used to materialise crash points; write order taken from the real `store`",
                            "a crash leaves a byte-prefix of the written stream (no reordering of writes by the file system)"]
        k.observe_daemon(out, prop, seed)
        # sensitivity of the model: with a non-truncating open the crash-atomicity invariant must fail
        neg = vf.run_tlc("MC_KeySet", "MC_KeySet_NoTrunc.cfg", workers=1, coverage=False)
        if "C27_CrashAtomicity" not in neg.violated:
            raise vf.ToolError("negative configuration NoTrunc no longer violates C27_CrashAtomicity (vacuous invariant?)")
        out.add("negative_models_rejected", 1)
    for cfg in k.configs(prop, tier):
        k.model_and_replay(out, prop, tier, seed, cfg)
    k.record_and_validate(out, prop, tier, seed)
    return out


PROPS = ["C26", "C27"]

_T = ("TLA+ state machine (spec/KeySet.tla: key window, wire-id counter, token-level key file, store path, crash, restart, faults) "
      "model-checked with TLC; every explored transition replayed on the real KeySetProvider / KeySet and a real file; recorded "
      "sessions and runs of the real daemon task validated against the spec by TLC (Trace_KeySet)")
MANIFEST = {
    "C26": dict(level="model_checking", technique=_T, design_ref="6.7, 5.1, 7 (Codec and crypto group)", engine="tlc+replay+trace",
                text="Cookie decodes to exactly its content iff the issuing key is in the window (History 0,1,2, wire-id wrap-around and id reuse), "
                     "new cookies under the newest key, rotation keeps the newest History keys; every byte of every issued cookie modified, "
                     "foreign-key, truncated, short and padded cookies.",
                note="bounded model: History 0..2, wrap modulo 8, <= 11 key generations, 2 remembered cookies; both AEAD payload algorithms with "
                     "random session keys in the replay; cipher treated as ideal; conformance only on behaviours replayed/recorded"),
    "C27": dict(level="model_checking", technique=_T, design_ref="6.7, 7 (Codec and crypto group), 9 F-6", engine="tlc+replay+trace",
                text="Completed store restores exactly; crash between and inside every token of the store path (every byte prefix) loads as error or "
                     "the set being stored, with no / shorter / equal / longer old file; created file mode 0600; truncation at every token, every "
                     "header field x {0, ref-1, ref, ref+1, 2^32-1}, every key byte: load errs or yields a usable key set. Real daemon task observed.",
                note="bounded model: History 1 (thorough: 2), <= 3 keys per file, one fault per history; open flags observed at file level, not by "
                     "syscall trace; crash = byte-prefix of the write stream; known finding F-6 (primary == len accepted)"),
}
